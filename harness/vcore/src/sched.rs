//! E4: controlled scheduler for real OS threads.  One baton: the observer installed into
//! trippy-core's `verif_sync::RwLock` parks the calling thread at every lock acquisition attempt;
//! the scheduler keeps its own model of the lock, knows which threads are enabled, picks one (an
//! explorer choice) and only then lets it perform the real `parking_lot` operation, which
//! therefore never blocks.  Schedules are enumerated by the same prefix-replay DFS as E1
//! (choice 0 = keep running the current thread, any other choice = a preemption).

use crate::mc::Chooser;
use std::cell::RefCell;
use std::sync::{Arc, Condvar, Mutex};
use std::time::Duration;
use trippy_core::verif::{set_lock_observer, LockEvent, LockObserver};

#[derive(Debug, Clone, Copy, PartialEq, Eq)]
enum Ts {
    New,
    Ready,
    WantRead,
    WantWrite,
    Done,
}

#[derive(Debug, Clone)]
pub struct SchedEvent {
    pub step: u64,
    pub tid: usize,
    pub what: &'static str,
}

struct Inner {
    chooser: Chooser,
    state: Vec<Ts>,
    current: Option<usize>,
    readers: usize,
    writer: bool,
    step: u64,
    deadlock: bool,
    free: bool,
    started: bool,
    trace: Vec<SchedEvent>,
    model_errors: Vec<String>,
}

pub struct Sched {
    m: Mutex<Inner>,
    cv: Condvar,
}

thread_local! {
    static SESSION: RefCell<Option<(Arc<Sched>, usize)>> = const { RefCell::new(None) };
}

struct Obs;

impl LockObserver for Obs {
    fn event(&self, _lock: usize, event: LockEvent) {
        let s = SESSION.with(|s| s.borrow().clone());
        if let Some((sched, tid)) = s {
            sched.on_event(tid, event);
        }
    }
}

pub fn install_observer() {
    static ONCE: std::sync::Once = std::sync::Once::new();
    ONCE.call_once(|| set_lock_observer(Some(Arc::new(Obs))));
}

const WAIT: Duration = Duration::from_secs(20);

impl Sched {
    pub fn new(threads: usize, chooser: Chooser) -> Arc<Self> {
        install_observer();
        Arc::new(Self {
            m: Mutex::new(Inner {
                chooser,
                state: vec![Ts::New; threads],
                current: None,
                readers: 0,
                writer: false,
                step: 0,
                deadlock: false,
                free: false,
                started: false,
                trace: vec![],
                model_errors: vec![],
            }),
            cv: Condvar::new(),
        })
    }

    fn enabled(inner: &Inner, t: usize) -> bool {
        match inner.state[t] {
            Ts::Ready => true,
            Ts::WantRead => !inner.writer,
            Ts::WantWrite => !inner.writer && inner.readers == 0,
            Ts::New | Ts::Done => false,
        }
    }

    /// Choose who runs next; `from` is the thread giving up the baton.
    fn pick_next(&self, inner: &mut Inner, from: Option<usize>) {
        let mut order: Vec<usize> = vec![];
        if let Some(f) = from {
            if Self::enabled(inner, f) {
                order.push(f);
            }
        }
        for t in 0..inner.state.len() {
            if Some(t) != from && Self::enabled(inner, t) {
                order.push(t);
            }
        }
        if order.is_empty() {
            inner.current = None;
            if inner.state.iter().any(|s| *s != Ts::Done) {
                inner.deadlock = true;
                inner.free = true;
            }
        } else {
            let c = inner.chooser.choose(order.len());
            inner.current = Some(order[c]);
        }
        self.cv.notify_all();
    }

    fn wait_turn<'a>(&self, mut g: std::sync::MutexGuard<'a, Inner>, tid: usize) -> std::sync::MutexGuard<'a, Inner> {
        while !(g.free || g.current == Some(tid)) {
            let (ng, to) = self.cv.wait_timeout(g, WAIT).expect("MACHINERY: scheduler mutex poisoned");
            g = ng;
            assert!(!to.timed_out(), "MACHINERY: controlled thread {tid} starved (scheduler hang)");
        }
        g
    }

    /// Called first thing by every controlled thread.
    pub fn thread_begin(self: &Arc<Self>, tid: usize) {
        SESSION.with(|s| *s.borrow_mut() = Some((self.clone(), tid)));
        let mut g = self.m.lock().unwrap();
        g.state[tid] = Ts::Ready;
        self.cv.notify_all();
        let _g = self.wait_turn(g, tid);
    }

    /// Called by the main thread once all controlled threads are spawned.
    pub fn start(&self) {
        let mut g = self.m.lock().unwrap();
        while g.state.iter().any(|s| *s == Ts::New) {
            let (ng, to) = self.cv.wait_timeout(g, WAIT).expect("MACHINERY: scheduler mutex poisoned");
            g = ng;
            assert!(!to.timed_out(), "MACHINERY: controlled threads did not register");
        }
        g.started = true;
        self.pick_next(&mut g, None);
    }

    /// Called last thing by every controlled thread.
    pub fn thread_end(&self, tid: usize) {
        SESSION.with(|s| *s.borrow_mut() = None);
        let mut g = self.m.lock().unwrap();
        g.state[tid] = Ts::Done;
        g.step += 1;
        let st = g.step;
        g.trace.push(SchedEvent { step: st, tid, what: "end" });
        if !g.free {
            self.pick_next(&mut g, Some(tid));
        }
    }

    /// A fresh, strictly increasing step number (used for call/return instants of operations).
    pub fn step(&self) -> u64 {
        let mut g = self.m.lock().unwrap();
        g.step += 1;
        g.step
    }

    pub fn mark(&self, tid: usize, what: &'static str) -> u64 {
        let mut g = self.m.lock().unwrap();
        g.step += 1;
        let st = g.step;
        g.trace.push(SchedEvent { step: st, tid, what });
        st
    }

    fn on_event(&self, tid: usize, ev: LockEvent) {
        let mut g = self.m.lock().unwrap();
        g.step += 1;
        let st = g.step;
        match ev {
            LockEvent::ReadAttempt | LockEvent::WriteAttempt => {
                let (want, what) = if ev == LockEvent::ReadAttempt { (Ts::WantRead, "read-attempt") } else { (Ts::WantWrite, "write-attempt") };
                g.trace.push(SchedEvent { step: st, tid, what });
                if g.free {
                    return;
                }
                g.state[tid] = want;
                self.pick_next(&mut g, Some(tid));
                let mut g = self.wait_turn(g, tid);
                g.state[tid] = Ts::Ready;
            }
            LockEvent::ReadAcquired => {
                if g.writer && !g.free {
                    g.model_errors.push(format!("thread {tid} acquired read while the model has a writer"));
                }
                g.readers += 1;
                g.trace.push(SchedEvent { step: st, tid, what: "read-acquired" });
            }
            LockEvent::WriteAcquired => {
                if (g.writer || g.readers > 0) && !g.free {
                    g.model_errors.push(format!("thread {tid} acquired write while the model has holders"));
                }
                g.writer = true;
                g.trace.push(SchedEvent { step: st, tid, what: "write-acquired" });
            }
            LockEvent::ReadReleased => {
                g.readers = g.readers.saturating_sub(1);
                g.trace.push(SchedEvent { step: st, tid, what: "read-released" });
            }
            LockEvent::WriteReleased => {
                g.writer = false;
                g.trace.push(SchedEvent { step: st, tid, what: "write-released" });
            }
        }
    }

    /// After all threads were joined: (chooser with the schedule, trace, deadlock?, model errors)
    pub fn finish(&self) -> (Chooser, Vec<SchedEvent>, bool, Vec<String>) {
        let g = self.m.lock().unwrap();
        (g.chooser.clone(), g.trace.clone(), g.deadlock, g.model_errors.clone())
    }
}
