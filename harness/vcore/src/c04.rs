//! C04 — no inbound packet, however malformed, can crash the tracer.
//! Layer A: every accessor of every packet view over swept buffers.
//! Layer B: the real receive path (`Channel<SimSocket>::recv_probe` + the strategy-level
//! conversion inside a real `Strategy::run`) over structure-aware exhaustive field sweeps.

use crate::drive::{self, Cell, Ports, TraceParams};
use crate::mc::{self, Chooser};
use crate::pkt;
use crate::report::{Args, Finding, Report, Tier};
use crate::simnet::{self, Menu, Proto, Quote, Target};
use crate::vclock;
use crate::wire::{ExtLayout, ExtObj, MplsMember};
use serde_json::json;
use std::collections::BTreeMap;
use std::net::SocketAddr;
use std::sync::Mutex;
use std::time::Duration;
use trippy_core::verif::{Channel, Network, Response, StrategyConfig};
use trippy_core::{MaxInflight, MaxRounds, MultipathStrategy, Probe, Sequence, Strategy, TimeToLive, TraceId};

type Findings = BTreeMap<String, Finding>;

fn add(findings: &mut Findings, key: String, detail: String, replay: serde_json::Value, weight: usize) {
    match findings.get_mut(&key) {
        Some(f) => {
            f.count += 1;
            if (0, weight) < f.weight {
                f.detail = detail;
                f.replay = replay;
                f.weight = (0, weight);
            }
        }
        None => {
            findings.insert(
                key.clone(),
                Finding {
                    key,
                    detail,
                    replay,
                    weight: (0, weight),
                    count: 1,
                },
            );
        }
    }
}

// ---------------------------------------------------------------------------------------------
// Layer A

fn layer_a(tier: Tier, findings: &Mutex<Findings>) -> (u64, u64) {
    let types = pkt::view_types();
    let mut tasks = vec![];
    for (ti, vt) in types.iter().enumerate() {
        let mut lens: Vec<usize> = (vt.min_len..=vt.min_len + 64).collect();
        lens.extend([128, 129, 576, 1024]);
        for l in lens {
            tasks.push((ti, l));
        }
    }
    let total = Mutex::new((0u64, 0u64));
    mc::par_for(tasks.len(), mc::workers(), |k| {
        let (ti, len) = tasks[k];
        let vt = &types[ti];
        let dbg = len <= vt.min_len + 64;
        let mut n = 0u64;
        let mut accepted = 0u64;
        let mut local = Findings::new();
        let mut run = |buf: &[u8], what: String, local: &mut Findings| {
            n += 1;
            match mc::catch(|| (vt.exercise)(buf, dbg)) {
                Ok(Ok(true)) => accepted += 1,
                Ok(Ok(false)) => {}
                Ok(Err(msg)) => add(local, format!("{msg}@{}", vt.name), format!("{} on {what}", vt.name), json!({"check":"C04","layer":"A","view":vt.name,"bytes":buf}), buf.len()),
                Err(p) => add(local, format!("{}@{}", p.key(), vt.name), format!("{} accessor panicked on {what}: {} at {}:{}", vt.name, p.message, p.file, p.line), json!({"check":"C04","layer":"A","view":vt.name,"bytes":buf}), buf.len()),
            }
        };
        for fill in [0x00u8, 0xff] {
            let mut buf = vec![fill; len];
            run(&buf, format!("{len} octets of {fill:#04x}"), &mut local);
            for &(off, w) in vt.sweeps {
                if off + w > len {
                    continue;
                }
                let save = buf.clone();
                if w == 1 {
                    for v in 0..=255u8 {
                        buf[off] = v;
                        run(&buf, format!("{len} octets of {fill:#04x} with octet {off} = {v:#04x}"), &mut local);
                    }
                } else {
                    let step = if tier == Tier::Quick && len > vt.min_len + 16 { 251 } else { 1 };
                    let mut v = 0u32;
                    while v <= 0xffff {
                        buf[off..off + 2].copy_from_slice(&(v as u16).to_be_bytes());
                        run(&buf, format!("{len} octets of {fill:#04x} with 16-bit field at {off} = {v:#06x}"), &mut local);
                        // always include the neighbourhood of the buffer length and the extremes
                        v += if v < 2048 || v > 0xffff - 300 { 1 } else { step };
                    }
                }
                buf = save;
            }
        }
        let mut t = total.lock().unwrap();
        t.0 += n;
        t.1 += accepted;
        drop(t);
        let mut g = findings.lock().unwrap();
        for (k, f) in local {
            match g.get_mut(&k) {
                Some(o) => {
                    o.count += f.count;
                    if f.weight < o.weight {
                        let c = o.count;
                        *o = f;
                        o.count = c;
                    }
                }
                None => {
                    g.insert(k, f);
                }
            }
        }
    });
    let t = *total.lock().unwrap();
    t
}

// ---------------------------------------------------------------------------------------------
// Layer B

#[derive(Clone)]
struct Template {
    name: &'static str,
    bytes: Vec<u8>,
    peer: Option<SocketAddr>,
}

/// Build the response templates for a configuration from the probe the real dispatch code emits.
fn templates(cell: &Cell, p: &TraceParams) -> Vec<Template> {
    let topo = drive::topo_linear(cell, 3, Target::Answers);
    let net = drive::net_cfg(cell, p, topo, Menu::default());
    simnet::install(net, Chooser::new(&[], 0));
    let mut out = vec![];
    {
        let mut ch = drive::make_channel(cell, p).expect("MACHINERY: channel connect");
        let probe = drive::make_probe(cell, p, p.initial_sequence, 1, 0);
        ch.send_probe(probe).expect("MACHINERY: template probe dispatch");
    }
    simnet::with(|w| {
        let sent = w.sent[0].clone();
        let hop = w.cfg.topo.hops[0].clone();
        let from = hop.addr;
        let peer = w.cfg.v6.then(|| SocketAddr::new(from, 0));
        let objs = vec![
            ExtObj::Mpls(vec![
                MplsMember { label: 19380, exp: 3, bos: 0, ttl: 1 },
                MplsMember { label: 0xfffff, exp: 7, bos: 1, ttl: 255 },
            ]),
            ExtObj::Other(2, 1, vec![1, 2, 3, 4, 5, 6, 7, 8]),
        ];
        let (qfull, _) = w.quoted(&sent, 0, Some(&hop), Quote::Full);
        let (q8, _) = w.quoted(&sent, 0, Some(&hop), Quote::HeaderPlus(8));
        let mk = |w: &simnet::World, te: bool, code: u8, q: &[u8], ext: Option<(Vec<ExtObj>, ExtLayout)>, opts: usize| {
            let icmp = w.icmp_error(from, te, code, q, ext.as_ref());
            w.wrap_icmp(from, icmp, opts)
        };
        out.push(Template { name: "TE-full", bytes: mk(w, true, 0, &qfull, None, 0), peer });
        out.push(Template { name: "TE-hdr8", bytes: mk(w, true, 0, &q8, None, 0), peer });
        out.push(Template { name: "DU-full", bytes: mk(w, false, 3, &qfull, None, 0), peer });
        out.push(Template { name: "TE-ext-compliant", bytes: mk(w, true, 0, &qfull, Some((objs.clone(), ExtLayout::Compliant)), 0), peer });
        out.push(Template { name: "TE-ext-legacy", bytes: mk(w, true, 0, &q8, Some((objs.clone(), ExtLayout::Legacy128)), 0), peer });
        out.push(Template { name: "DU-ext-compliant", bytes: mk(w, false, 1, &qfull, Some((objs, ExtLayout::Compliant)), 0), peer });
        if !w.cfg.v6 {
            out.push(Template { name: "TE-outer-options", bytes: mk(w, true, 0, &qfull, None, 40), peer });
        }
        // Echo Reply with the probe's id/seq (only meaningful for ICMP but fed to every config)
        let (typ, pseudo) = if w.cfg.v6 {
            (crate::wire::ICMP6_ECHO_REPLY, Some((w.cfg.dst, w.cfg.src)))
        } else {
            (crate::wire::ICMP4_ECHO_REPLY, None)
        };
        let er = crate::wire::build_echo(typ, p.trace_id, p.initial_sequence, &[0u8; 16], pseudo);
        out.push(Template { name: "ER", bytes: w.wrap_icmp(w.cfg.dst, er, 0), peer: w.cfg.v6.then(|| SocketAddr::new(w.cfg.dst, 0)) });
    });
    let _ = simnet::take();
    out
}

struct Batch {
    tmpl: Template,
    off: usize,
    width: usize,
    values: Vec<u32>,
    lengths: Vec<usize>,
    vi: usize,
    li: usize,
    pad: u8,
}

impl Batch {
    fn next(&mut self) -> Option<Vec<u8>> {
        if self.vi >= self.values.len() {
            return None;
        }
        let l = self.lengths[self.li];
        let mut b = self.tmpl.bytes.clone();
        let v = self.values[self.vi];
        if self.width == 1 {
            if self.off < b.len() {
                b[self.off] = v as u8;
            }
        } else if self.width == 2 {
            if self.off + 1 < b.len() {
                b[self.off..self.off + 2].copy_from_slice(&(v as u16).to_be_bytes());
            }
        }
        b.resize(l, self.pad);
        self.li += 1;
        if self.li >= self.lengths.len() {
            self.li = 0;
            self.vi += 1;
        }
        Some(b)
    }
    fn remaining(&self) -> bool {
        self.vi < self.values.len()
    }
}

#[derive(Default)]
struct Stats {
    fed: u64,
    errs: u64,
    none: u64,
    responses: u64,
    findings: Findings,
}

struct FeedNet<'a> {
    ch: Channel<simnet::SimSocket>,
    batch: &'a mut Batch,
    stats: &'a mut Stats,
    last: &'a mut Vec<u8>,
    ctx: &'a str,
}

impl Network for FeedNet<'_> {
    fn send_probe(&mut self, probe: Probe) -> Result<(), trippy_core::Error> {
        self.ch.send_probe(probe)
    }
    fn recv_probe(&mut self) -> Result<Option<Response>, trippy_core::Error> {
        loop {
            let Some(bytes) = self.batch.next() else {
                // feed exhausted: let the round (and the run) end
                vclock::advance(3 * 3_600_000_000_000);
                return Ok(None);
            };
            self.stats.fed += 1;
            let peer = self.batch.tmpl.peer;
            self.last.clear();
            self.last.extend_from_slice(&bytes);
            simnet::with(|w| {
                w.inject.push_back((bytes, peer));
                // keep the ground-truth logs from growing
                w.deliveries.clear();
            });
            match mc::catch(|| self.ch.recv_probe()) {
                Err(p) => {
                    let key = format!("{}@recv:{}", p.key(), self.batch.tmpl.name.split('-').next().unwrap_or(""));
                    add(
                        &mut self.stats.findings,
                        key,
                        format!("[{}] recv_probe panicked: {} at {}:{} on template {} (field at {} width {})", self.ctx, p.message, p.file, p.line, self.batch.tmpl.name, self.batch.off, self.batch.width),
                        json!({"check":"C04","layer":"B","config":self.ctx,"template":self.batch.tmpl.name,"bytes":self.last.clone()}),
                        self.last.len(),
                    );
                    simnet::with(|w| w.inject.clear());
                }
                Ok(Err(_)) => self.stats.errs += 1,
                Ok(Ok(None)) => self.stats.none += 1,
                Ok(Ok(Some(r))) => {
                    self.stats.responses += 1;
                    return Ok(Some(r));
                }
            }
        }
    }
}

fn strategy_config(cell: &Cell, p: &TraceParams) -> StrategyConfig {
    StrategyConfig {
        target_addr: cell.dst(),
        protocol: cell.protocol(),
        trace_identifier: TraceId(p.trace_id),
        max_rounds: Some(MaxRounds(std::num::NonZeroUsize::new(1).unwrap())),
        first_ttl: TimeToLive(1),
        max_ttl: TimeToLive(2),
        grace_duration: Duration::from_secs(3600),
        max_inflight: MaxInflight(2),
        initial_sequence: Sequence(p.initial_sequence),
        multipath_strategy: cell.strategy,
        port_direction: cell.port_direction(),
        min_round_duration: Duration::from_secs(3600),
        max_round_duration: Duration::from_secs(3600),
    }
}

/// Feed a whole batch through the real receive path + strategy, restarting after a panic that
/// unwinds through `Strategy::run`.
fn run_batch(cell: &Cell, p: &TraceParams, batch: &mut Batch, stats: &mut Stats, ctx: &str) {
    let mut restarts = 0;
    while batch.remaining() {
        let topo = drive::topo_linear(cell, 3, Target::Silent);
        let mut net = drive::net_cfg(cell, p, topo, Menu::default());
        net.topo.hops.iter_mut().for_each(|h| h.kind = simnet::HopKind::Silent);
        simnet::install(net, Chooser::new(&[], 0));
        let mut last = vec![];
        let cfg = strategy_config(cell, p);
        let r = {
            let ch = drive::make_channel(cell, p).expect("MACHINERY: channel connect");
            let netw = FeedNet { ch, batch, stats, last: &mut last, ctx };
            mc::catch(move || Strategy::new(&cfg, |_| {}).run(netw))
        };
        let _ = simnet::take();
        match r {
            Ok(_) => {}
            Err(pn) => {
                let key = format!("{}@strategy:{}", pn.key(), batch.tmpl.name.split('-').next().unwrap_or(""));
                add(
                    &mut stats.findings,
                    key,
                    format!("[{ctx}] strategy-level conversion panicked: {} at {}:{} on template {}", pn.message, pn.file, pn.line, batch.tmpl.name),
                    json!({"check":"C04","layer":"B","config":ctx,"template":batch.tmpl.name,"bytes":last}),
                    last.len(),
                );
                restarts += 1;
                assert!(restarts < 5_000_000, "MACHINERY: too many restarts");
            }
        }
    }
}

fn boundary_lengths(tlen: usize, structural: &[usize]) -> Vec<usize> {
    let mut v: Vec<usize> = vec![];
    for &s in structural.iter().chain([0usize, 128, 128 + 8, 128 + 20, 128 + 28, 128 + 48, tlen, 576, 1024].iter()) {
        for d in 0..=6usize {
            v.push(s.saturating_sub(d));
            v.push((s + d).min(1024));
        }
    }
    v.sort_unstable();
    v.dedup();
    v
}

fn v16_boundary() -> Vec<u32> {
    let mut v: Vec<u32> = (0..=300).collect();
    v.extend(65236..=65535);
    for k in 8..16 {
        let b = 1u32 << k;
        v.extend([b - 1, b, b + 1]);
    }
    v.extend([1024 - 20, 1024 - 28, 1024 - 48, 1023, 1024, 1025]);
    v.sort_unstable();
    v.dedup();
    v
}

/// 18 configurations: protocol x family x extension mode (+ the Dublin/IPv6 and Paris regimes)
fn cells() -> Vec<Cell> {
    let mut cells = vec![];
    for v6 in [false, true] {
        for ext in [false, true] {
            cells.push(Cell { proto: Proto::Icmp, v6, strategy: MultipathStrategy::Classic, ports: Ports::None, privileged: true, ext });
            cells.push(Cell { proto: Proto::Udp, v6, strategy: MultipathStrategy::Classic, ports: Ports::FixedSrc, privileged: true, ext });
            cells.push(Cell { proto: Proto::Tcp, v6, strategy: MultipathStrategy::Classic, ports: Ports::FixedSrc, privileged: true, ext });
            cells.push(Cell { proto: Proto::Udp, v6, strategy: MultipathStrategy::Dublin, ports: Ports::FixedBoth, privileged: true, ext });
        }
    }
    cells.push(Cell { proto: Proto::Udp, v6: false, strategy: MultipathStrategy::Paris, ports: Ports::FixedDest, privileged: true, ext: true });
    cells.push(Cell { proto: Proto::Udp, v6: true, strategy: MultipathStrategy::Paris, ports: Ports::FixedDest, privileged: true, ext: true });
    cells
}

pub fn replay(path: &str) -> i32 {
    let s = std::fs::read_to_string(path).expect("MACHINERY: cannot read replay file");
    let v: serde_json::Value = serde_json::from_str(&s).expect("MACHINERY: replay JSON");
    let r = if v.get("replay").is_some() { &v["replay"] } else { &v };
    let bytes: Vec<u8> = r["bytes"].as_array().expect("bytes").iter().map(|b| b.as_u64().unwrap() as u8).collect();
    println!("replay C04 layer {} ({} octets): {}", r["layer"], bytes.len(), bytes.iter().map(|b| format!("{b:02x}")).collect::<String>());
    let mut findings = Findings::new();
    if r["layer"] == "A" {
        let name = r["view"].as_str().unwrap();
        let types = pkt::view_types();
        let vt = types.iter().find(|t| t.name == name).expect("MACHINERY: view type");
        match mc::catch(|| (vt.exercise)(&bytes, true)) {
            Ok(Ok(_)) => {}
            Ok(Err(m)) => add(&mut findings, m, String::new(), json!(null), 0),
            Err(p) => add(&mut findings, p.key(), format!("{} at {}:{}", p.message, p.file, p.line), json!(null), 0),
        }
    } else {
        let name = r["config"].as_str().unwrap();
        let cell = cells().into_iter().find(|c| c.name() == name).expect("MACHINERY: config");
        let p = TraceParams { packet_size: if cell.v6 { 200 } else { 180 }, initial_sequence: 33434, ..TraceParams::default() };
        let peer = cell.v6.then(|| SocketAddr::new(cell.hop_addr(1, 0), 0));
        let tl = bytes.len();
        let mut b = Batch { tmpl: Template { name: "replay", bytes, peer }, off: tl + 10, width: 0, values: vec![0], lengths: vec![tl], vi: 0, li: 0, pad: 0 };
        let mut stats = Stats::default();
        run_batch(&cell, &p, &mut b, &mut stats, name);
        println!("receive path: {} error value(s), {} ignored, {} response(s)", stats.errs, stats.none, stats.responses);
        findings = stats.findings;
    }
    for (k, f) in &findings {
        println!("DISCREPANCY {k}: {}", f.detail);
    }
    if findings.is_empty() {
        println!("replay: property held");
        0
    } else {
        println!("VIOLATION property=C04 replay={path}");
        1
    }
}

fn layer_b(tier: Tier, findings: &Mutex<Findings>) -> (u64, u64, u64, u64, usize) {
    let cells = cells();
    struct Unit {
        cell: Cell,
        p: TraceParams,
        tmpl: Template,
        off: usize,
        width: usize,
        values: Vec<u32>,
        lengths: Vec<usize>,
        pad: u8,
    }
    let mut units: Vec<Unit> = vec![];
    for cell in &cells {
        let p = TraceParams { packet_size: if cell.v6 { 200 } else { 180 }, initial_sequence: 33434, ..TraceParams::default() };
        let ts = templates(cell, &p);
        for t in ts {
            let tlen = t.bytes.len();
            // structural regions: outer IP header (v4), ICMP header, nested IP header, nested L4
            // header, extension header + first object + MPLS members
            let (icmp_off, nested_off) = if cell.v6 { (0usize, 8usize) } else {
                let ihl = usize::from(t.bytes[0] & 0x0f) * 4;
                (ihl, ihl + 8)
            };
            let nested_hdr = if cell.v6 { 40 } else { 20 };
            let l4_off = nested_off + nested_hdr;
            let ext_off = nested_off + 128;
            let structural = [icmp_off, nested_off, l4_off, l4_off + 8, l4_off + 20, ext_off, ext_off + 4, ext_off + 8, ext_off + 12];
            let mut byte_positions: Vec<usize> = vec![];
            if !cell.v6 {
                byte_positions.extend(0..icmp_off.min(24));
            }
            byte_positions.extend(icmp_off..icmp_off + 8);
            byte_positions.extend(nested_off..(l4_off + 20).min(tlen));
            if t.name.contains("ext") {
                byte_positions.extend(ext_off..(ext_off + 24).min(tlen));
            }
            byte_positions.retain(|o| *o < tlen);
            byte_positions.sort_unstable();
            byte_positions.dedup();
            let all_lengths: Vec<usize> = (0..=1024).collect();
            let near = boundary_lengths(tlen, &structural);
            // 8-bit sweeps: every structural octet x all 256 values
            for &off in &byte_positions {
                let lengths = if tier == Tier::Thorough { all_lengths.clone() } else { near.clone() };
                units.push(Unit { cell: *cell, p: p.clone(), tmpl: t.clone(), off, width: 1, values: (0..=255).collect(), lengths, pad: 0 });
            }
            // the unmodified template at every received length, with both paddings
            for pad in [0x00u8, 0xff] {
                units.push(Unit { cell: *cell, p: p.clone(), tmpl: t.clone(), off: tlen + 10, width: 0, values: vec![0], lengths: all_lengths.clone(), pad });
            }
            // 16-bit fields
            let mut w16: Vec<usize> = vec![];
            if cell.v6 {
                w16.push(nested_off + 4); // quoted payload length
            } else {
                w16.extend([2, nested_off + 2, nested_off + 4]); // outer/nested total length, nested id
            }
            w16.extend([l4_off, l4_off + 2, l4_off + 4, l4_off + 6]); // ports, udp length, checksum
            if t.name.contains("ext") {
                w16.extend([ext_off + 4, ext_off + 16]); // object lengths
            }
            w16.retain(|o| *o + 1 < tlen);
            for off in w16 {
                // every value of every 16-bit field: at the full received length (quick) / at every
                // boundary length (thorough) - a window of a few values out of 65536 is invisible
                // to any boundary set
                units.push(Unit { cell: *cell, p: p.clone(), tmpl: t.clone(), off, width: 2, values: (0..=65535).collect(), lengths: if tier == Tier::Thorough { near.clone() } else { vec![tlen] }, pad: 0 });
                units.push(Unit { cell: *cell, p: p.clone(), tmpl: t.clone(), off, width: 2, values: v16_boundary(), lengths: if tier == Tier::Thorough { all_lengths.clone() } else { near.clone() }, pad: 0 });
            }
        }
        // small-alphabet exhaustive: all strings of length <= 5 over {00,45,4F,FF} at each header start
        let t0 = templates(cell, &p).remove(0);
        let starts: Vec<usize> = if cell.v6 { vec![0, 8, 48] } else { vec![0, 20, 28, 48] };
        for start in starts {
            // encoded as a synthetic unit per first byte (handled below through width == 99)
            units.push(Unit { cell: *cell, p: p.clone(), tmpl: t0.clone(), off: start, width: 99, values: (0..(4u32.pow(5))).collect(), lengths: vec![t0.bytes.len()], pad: 0 });
        }
    }
    let nunits = units.len();
    let agg = Mutex::new((0u64, 0u64, 0u64, 0u64));
    mc::par_for(units.len(), mc::workers(), |ui| {
        let u = &units[ui];
        let mut stats = Stats::default();
        let ctx = u.cell.name();
        // trace-level logging is a configuration too: the Debug impls of every instrumented
        // argument then run on the hostile input (thorough: every unit both ways; quick: a third)
        // (formatting is some hundred times dearer than parsing, so the logging pass takes the
        // unit at its full length only - thorough: at the boundary lengths - and, for the 2^16
        // sweeps, the boundary values)
        let passes: &[bool] = if u.width == 99 || (tier == Tier::Quick && u.width == 1 && ui % 3 != 0) { &[false] } else { &[false, true] };
        for &logging in passes {
        crate::tracelog::set(logging);
        let ctx = if logging { format!("{ctx}/trace-logging") } else { ctx.clone() };
        let tlen = u.tmpl.bytes.len();
        let (values, lengths): (Vec<u32>, Vec<usize>) = if !logging {
            (u.values.clone(), u.lengths.clone())
        } else {
            let vals = if u.width == 2 && u.values.len() > 4096 { v16_boundary() } else { u.values.clone() };
            let lens = if u.width == 0 {
                u.lengths.iter().copied().filter(|l| tier == Tier::Thorough || l % 4 == 0 || l.abs_diff(tlen) < 8).collect()
            } else if tier == Tier::Thorough {
                boundary_lengths(tlen, &[]).into_iter().filter(|l| u.lengths.contains(l)).collect()
            } else {
                vec![tlen]
            };
            (vals, lens)
        };
        if u.width == 99 {
            // expand the small alphabet into a batch of explicit templates
            let alpha = [0x00u8, 0x45, 0x4f, 0xff];
            for code in &u.values {
                for n in 1..=5usize {
                    if n < 5 && *code >= 4u32.pow(n as u32) {
                        continue;
                    }
                    let mut t = u.tmpl.clone();
                    let mut c = *code;
                    for i in 0..n {
                        if u.off + i < t.bytes.len() {
                            t.bytes[u.off + i] = alpha[(c % 4) as usize];
                        }
                        c /= 4;
                    }
                    let tl = t.bytes.len();
                    let mut b = Batch { tmpl: t, off: tl + 10, width: 0, values: vec![0], lengths: vec![tl], vi: 0, li: 0, pad: 0 };
                    run_batch(&u.cell, &u.p, &mut b, &mut stats, &ctx);
                    if n == 5 {
                        break;
                    }
                }
            }
        } else {
            let mut b = Batch { tmpl: u.tmpl.clone(), off: u.off, width: u.width, values, lengths, vi: 0, li: 0, pad: u.pad };
            run_batch(&u.cell, &u.p, &mut b, &mut stats, &ctx);
        }
        crate::tracelog::set(false);
        }
        let mut a = agg.lock().unwrap();
        a.0 += stats.fed;
        a.1 += stats.errs;
        a.2 += stats.none;
        a.3 += stats.responses;
        drop(a);
        let mut g = findings.lock().unwrap();
        for (k, f) in stats.findings {
            match g.get_mut(&k) {
                Some(o) => {
                    o.count += f.count;
                    if f.weight < o.weight {
                        let c = o.count;
                        *o = f;
                        o.count = c;
                    }
                }
                None => {
                    g.insert(k, f);
                }
            }
        }
    });
    let a = *agg.lock().unwrap();
    (a.0, a.1, a.2, a.3, nunits)
}

pub fn run(args: &Args) -> i32 {
    if let Some(path) = &args.replay {
        return replay(path);
    }
    let tier = args.tier;
    let mut rep = Report::new("C04", tier, "exploration");
    let findings: Mutex<Findings> = Mutex::new(Findings::new());
    if let Err(e) = crate::tracelog::self_test() {
        panic!("MACHINERY: trace-logging seam: {e}");
    }
    let (a_calls, a_accepted) = layer_a(tier, &findings);
    let (fed, errs, none, responses, units) = layer_b(tier, &findings);
    rep.merge_findings(findings.into_inner().unwrap());
    rep.set("evaluations", json!(a_calls + fed));
    rep.set("distinct_nontrivial", json!(a_accepted + responses + errs));
    rep.set("layer_a_exerciser_calls", json!(a_calls));
    rep.set("layer_b_datagrams", json!(fed));
    rep.set("layer_b_units", json!(units));
    let (spans, octets) = crate::tracelog::totals();
    rep.observe("trace_logging_spans_created", json!(spans));
    rep.observe("trace_logging_octets_of_debug_output_formatted", json!(octets));
    rep.observe("datagrams_rejected_with_error_value", json!(errs));
    rep.observe("datagrams_ignored", json!(none));
    rep.observe("datagrams_yielding_a_response_passed_through_the_strategy", json!(responses));
    rep.set("rule", json!("Layer A: 19 view types x lengths {min..min+64,128,129,576,1024} x fill {00,FF} x every value of each length/offset-bearing field (8-bit: all; 16-bit: all near the extremes, stride 251 elsewhere in quick, all in thorough); every getter, payload/packet/options accessor, iterator (ceiling = len+1) and Debug. Layer B: real Channel<SimSocket>::recv_probe inside a real Strategy::run for 18 configurations x 7-8 response templates built from the probe the real dispatch code emitted: every structural octet x all 256 values x received lengths (quick: within +-6 of every structural boundary; thorough: all 0..1024), unmodified template at every length 0..1024 x 2 paddings, 16-bit fields x all 2^16 values at the full length (thorough: at every boundary length) + boundary value set x boundary lengths, all strings of length <=5 over {00,45,4F,FF} at each header start; the units run a second time with trace-level logging switched on - at the full received length (thorough: at the boundary lengths), a third of the 8-bit sweeps in quick, boundary values for the 16-bit sweeps, every fourth length for the unmodified templates - (a tracing subscriber that formats every field of every span and event), so the Debug impls of all instrumented arguments run on the same inputs. distinct_nontrivial = inputs that got past construction (layer A) or produced a response / an error value (layer B)"));
    rep.sample(json!({"layer": "B", "config": "udp/v6/dublin/fixedboth/priv/ext", "template": "TE-ext-compliant", "mutation": "octet 4 (RFC 4884 length) = every value 0..255, received length 0..1024"}));
    rep.sample(json!({"layer": "A", "view": "ExtensionObjectPacket", "bytes": "4..68 octets of 00/FF with the 16-bit length field swept"}));
    rep.assumptions = vec!["an Err value from recv_probe is allowed by the statement (DESIGN.md 5.6)".into(), crate::c01::ASSUME.into()];
    rep.finish()
}
