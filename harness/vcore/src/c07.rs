//! C07 — sequence numbers stay unique, in range and inside the round buffer.
//! Explicit walk of the (round-start sequence, round size) graph by driving the real
//! `Strategy::run` / `TracerState` with TCP re-issue bursts (round sizes 1..=513), in both
//! maximum-sequence regimes, with a behavioural check of the round-separation clause.

use crate::drive::{self, Cell, Ports, TraceParams};
use crate::mc::{self, Chooser};
use crate::report::{Args, Finding, Report, Tier};
use crate::simnet::{Menu, Proto, Target};
use crate::strat::{self, SCfg, SMenu, SOutcome, T_NS};
use serde_json::{json, Value};
use std::collections::{BTreeMap, BTreeSet};
use std::net::IpAddr;
use std::sync::Mutex;
use std::time::Duration;
use trippy_core::{MultipathStrategy, PortDirection, Protocol};

type Findings = BTreeMap<String, Finding>;

fn add(f: &mut Findings, key: String, detail: String, replay: Value, weight: usize) {
    let e = f.entry(key.clone()).or_insert_with(|| Finding { key, detail: detail.clone(), replay: replay.clone(), weight: (0, usize::MAX), count: 0 });
    e.count += 1;
    if (0, weight) < e.weight {
        e.detail = detail;
        e.replay = replay;
        e.weight = (0, weight);
    }
}

/// A run whose round r consumes exactly `sizes[r]` sequence numbers (TCP: one TTL + re-issues).
fn tcp_cfg(init: u16, sizes: &[usize], script: Vec<(usize, u16)>) -> SCfg {
    let mut burst = vec![];
    let mut at = 0usize;
    for &k in sizes {
        assert!(k >= 1);
        if k > 1 {
            burst.push((at, k - 1));
        }
        at += k;
    }
    SCfg {
        protocol: Protocol::Tcp,
        target_dist: None,
        path_len: 1,
        silent_hops: vec![1],
        menu: SMenu::default(),
        burst,
        script,
        latency: 0,
        ecmp_longer: (0, 0),
        strategy: strat::strategy_config(Protocol::Tcp, 1, 1, 255, sizes.len(), Duration::ZERO, Duration::ZERO, Duration::ZERO, init),
    }
}

/// Dublin/IPv6 regime: UDP, `m` probes per round (no re-issue possible), `rounds` rounds.
fn dublin_v6_cfg(init: u16, m: u8, rounds: usize, script: Vec<(usize, u16)>) -> SCfg {
    let mut sc = strat::strategy_config(
        Protocol::Udp,
        1,
        m,
        255,
        rounds,
        Duration::from_nanos(T_NS * (u64::from(m) - 1) + T_NS / 2),
        Duration::from_nanos(T_NS * (u64::from(m) - 1) + T_NS / 2),
        Duration::ZERO,
        init,
    );
    sc.multipath_strategy = MultipathStrategy::Dublin;
    sc.port_direction = PortDirection::new_fixed_both(5000, 3500);
    sc.target_addr = IpAddr::V6("fd00::a09:909".parse().unwrap());
    SCfg {
        protocol: Protocol::Udp,
        target_dist: None,
        path_len: 1,
        silent_hops: (1..=254).collect(),
        menu: SMenu::default(),
        burst: vec![],
        script,
        latency: 0,
        ecmp_longer: (0, 0),
        strategy: sc,
    }
}

/// Monitor of the statement's arithmetic clauses on the send trace.
fn monitor(o: &SOutcome, init: u16, expect_rounds: usize, ctx: &Value, f: &mut Findings) -> u64 {
    let w = &o.world;
    let mut checked = 0;
    if let Some(p) = &o.panic {
        add(f, p.key(), format!("{} at {}:{} [{ctx}]", p.message, p.file, p.line), ctx.clone(), w.sends.len());
        return 0;
    }
    if let Err(e) = &o.result {
        add(f, "run-error".into(), format!("{e} [{ctx}]"), ctx.clone(), w.sends.len());
        return 0;
    }
    if w.publishes.len() != expect_rounds {
        add(f, "round-count".into(), format!("{} rounds published, expected {expect_rounds} [{ctx}]", w.publishes.len()), ctx.clone(), 0);
    }
    let mut prev_last: Option<u16> = None;
    let mut si = 0usize;
    for (r, p) in w.publishes.iter().enumerate() {
        let sends: Vec<&strat::SendRec> = w.sends[si..].iter().take_while(|s| s.round == r).collect();
        si += sends.len();
        checked += sends.len() as u64;
        if sends.len() > 512 {
            add(f, "more-than-512-in-round".into(), format!("round {r}: {} sequence numbers [{ctx}]", sends.len()), ctx.clone(), r);
        }
        if p.probes.len() != sends.len() {
            add(f, "slots-vs-sends".into(), format!("round {r}: {} slots published, {} probes dispatched [{ctx}]", p.probes.len(), sends.len()), ctx.clone(), r);
        }
        for (k, s) in sends.iter().enumerate() {
            if s.seq == u16::MAX {
                add(f, "sequence-reaches-65535".into(), format!("round {r} [{ctx}]"), ctx.clone(), r);
            }
            if k > 0 && s.seq != sends[k - 1].seq.wrapping_add(1) {
                add(f, "not-consecutive".into(), format!("round {r}: sequence {} follows {} [{ctx}]", s.seq, sends[k - 1].seq), ctx.clone(), r);
            }
            if k > 0 && s.seq < sends[k - 1].seq {
                add(f, "wraps-within-round".into(), format!("round {r}: {} after {} [{ctx}]", s.seq, sends[k - 1].seq), ctx.clone(), r);
            }
            if s.probe_round != r {
                add(f, "round-id".into(), format!("round {r}: probe carries round id {} [{ctx}]", s.probe_round), ctx.clone(), r);
            }
        }
        // "a sequence number used in the immediately preceding round is never valid in the current
        // one": a number the current round itself uses is certainly valid in it
        if r > 0 {
            let prev: std::collections::HashSet<u16> = w.sends.iter().filter(|s| s.round == r - 1).map(|s| s.seq).collect();
            if let Some(x) = sends.iter().find(|s| prev.contains(&s.seq)) {
                let dublin_v6 = w.cfg.strategy.multipath_strategy == MultipathStrategy::Dublin && w.cfg.strategy.target_addr.is_ipv6();
                let regime = if dublin_v6 { "dublin-ipv6".to_string() } else { (if init > 64511 { "tcp:initial-sequence>64511" } else if init > 63999 { "tcp:initial-sequence>63999" } else { "tcp:initial-sequence<=63999" }).to_string() };
                add(f, format!("previous-round-sequence-valid-in-current-round:{regime}:sequence-genuinely-reused"), format!("round {r} re-uses sequence {} of round {} [{ctx}]", x.seq, r - 1), ctx.clone(), r);
            }
        }
        if let (Some(pl), Some(first)) = (prev_last, sends.first()) {
            if first.seq != pl.wrapping_add(1) && first.seq != init {
                add(f, "round-start-neither-next-nor-initial".into(), format!("round {r} starts at {} after {pl} (initial {init}) [{ctx}]", first.seq), ctx.clone(), r);
            }
        }
        if let Some(l) = sends.last() {
            prev_last = Some(l.seq);
        }
    }
    checked
}

fn same_publishes(a: &SOutcome, b: &SOutcome) -> Option<String> {
    if a.world.publishes.len() != b.world.publishes.len() {
        return Some(format!("{} vs {} rounds", a.world.publishes.len(), b.world.publishes.len()));
    }
    for (r, (x, y)) in a.world.publishes.iter().zip(&b.world.publishes).enumerate() {
        if x.probes != y.probes || x.largest_ttl != y.largest_ttl || x.reason != y.reason || x.time_ns != y.time_ns {
            let slot = x.probes.iter().zip(&y.probes).position(|(p, q)| p != q);
            return Some(format!(
                "round {r} differs (largest_ttl {} vs {}, reason {:?} vs {:?}, first differing slot {slot:?}: {:?} vs {:?})",
                x.largest_ttl,
                y.largest_ttl,
                x.reason,
                y.reason,
                slot.map(|i| &x.probes[i]),
                slot.map(|i| &y.probes[i])
            ));
        }
    }
    None
}

pub fn replay(path: &str) -> i32 {
    let s = std::fs::read_to_string(path).expect("MACHINERY: cannot read replay file");
    let v: Value = serde_json::from_str(&s).expect("MACHINERY: replay JSON");
    let r = if v.get("replay").is_some() { &v["replay"] } else { &v };
    let ctx = if r.get("ctx").is_some() { &r["ctx"] } else { r };
    let init = ctx["initial_sequence"].as_u64().unwrap() as u16;
    let script = |x: u16| -> Vec<(usize, u16)> { r["deliver_at_recv_call"].as_u64().map(|c| vec![(c as usize, x)]).unwrap_or_default() };
    let stale = r["stale_sequence"].as_u64().map(|x| x as u16);
    let mk = |scr: Vec<(usize, u16)>| -> SOutcome {
        match ctx["part"].as_str() {
            Some("D") => strat::run_strategy(dublin_v6_cfg(init, ctx["probes_per_round"].as_u64().unwrap() as u8, ctx["rounds"].as_u64().unwrap() as usize, scr), Chooser::new(&[], 0)),
            Some("C") => {
                let n = ctx["constant_round_size"].as_u64().unwrap() as usize;
                strat::run_strategy(tcp_cfg(init, &vec![n; ctx["rounds"].as_u64().unwrap() as usize], scr), Chooser::new(&[], 0))
            }
            _ => {
                let sizes: Vec<usize> = ctx["round_sizes"].as_array().expect("round_sizes").iter().map(|x| x.as_u64().unwrap() as usize).collect();
                strat::run_strategy(tcp_cfg(init, &sizes, scr), Chooser::new(&[], 0))
            }
        }
    };
    println!("replay C07: {ctx} stale sequence {stale:?}");
    let mut f = Findings::new();
    let base = mk(vec![]);
    println!("result {:?}; {} rounds, {} probes dispatched", base.result, base.world.publishes.len(), base.world.sends.len());
    for (r, p) in base.world.publishes.iter().enumerate() {
        let s: Vec<u16> = base.world.sends.iter().filter(|s| s.round == r).map(|s| s.seq).collect();
        println!("  round {r}: {} slots, sequences {:?}..{:?}, largest_ttl {}", p.probes.len(), s.first(), s.last(), p.largest_ttl);
    }
    monitor(&base, init, base.world.publishes.len(), ctx, &mut f);
    if let Some(x) = stale {
        let with = mk(script(x));
        let inert = mk(script(u16::MAX));
        if let Some(p) = &with.panic {
            add(&mut f, p.key(), p.message.clone(), json!(null), 0);
        } else if let Some(d) = same_publishes(&with, &inert) {
            add(&mut f, "previous-round-sequence-valid-in-current-round".into(), d, json!(null), 0);
        }
    }
    f.remove("round-count");
    for (k, x) in &f {
        println!("DISCREPANCY {k}: {}", x.detail);
    }
    if f.is_empty() {
        println!("replay: property held");
        0
    } else {
        println!("VIOLATION property=C07 replay={path}");
        1
    }
}

pub fn run(args: &Args) -> i32 {
    if let Some(path) = &args.replay {
        return replay(path);
    }
    let tier = args.tier;
    let mut rep = Report::new("C07", tier, "model_checking");
    let findings: Mutex<Findings> = Mutex::new(Findings::new());
    // (states = distinct (round-start sequence, size, regime) nodes visited; transitions = rounds)
    let totals = Mutex::new((BTreeSet::<(u8, u16, u16)>::new(), 0u64, 0u64, 0u64, 0u64));

    // the statement is quantified over the initial sequences a tracer can be configured with:
    // 0..=64511 is what Builder::build accepts.  Ask the real Builder for every 16-bit value; any
    // value above 64511 that it accepts joins the boundary initial sequences of parts A and D.
    let beyond: Vec<u16> = {
        let target: std::net::IpAddr = "10.9.9.9".parse().unwrap();
        let acc: Vec<u16> = (64512..=u16::MAX).filter(|x| trippy_core::Builder::new(target).initial_sequence(*x).build().is_ok()).collect();
        let mut v = vec![];
        if let (Some(lo), Some(hi)) = (acc.first(), acc.last()) {
            v = vec![*hi, acc[acc.len() / 2], *lo];
            v.dedup();
        }
        v
    };
    rep.set("initial_sequences_above_64511_accepted_by_builder", json!(beyond));

    // ---- Part A: boundary band, general regime, TCP re-issue bursts ------------------------
    let mut inits: Vec<u16> = if tier == Tier::Thorough { vec![64511, 64510, 64257, 64256, 64000, 63999, 63998, 33434, 0] } else { vec![64511, 64000, 63999, 33434] };
    inits.extend(&beyond);
    let r1s: Vec<usize> = if tier == Tier::Thorough {
        (0..=511).collect()
    } else {
        let mut v: Vec<usize> = vec![0, 1, 2, 3, 253, 254, 255, 256, 257, 258, 509, 510, 511];
        v.extend((32..512).step_by(32));
        v.sort_unstable();
        v.dedup();
        v
    };
    let mut tasks_a: Vec<(u16, usize)> = vec![];
    for &i in &inits {
        for &r in &r1s {
            tasks_a.push((i, r));
        }
    }
    mc::par_for(tasks_a.len(), mc::workers(), |ti| {
        let (init, r1) = tasks_a[ti];
        let mut local = Findings::new();
        let mut nodes = BTreeSet::new();
        let (mut rounds, mut execs, mut sends, mut diffs) = (0u64, 0u64, 0u64, 0u64);
        let nstep = if tier == Tier::Thorough || r1 % 64 == 0 || r1 > 500 || r1 < 4 { 1 } else { 3 };
        let mut n = 1usize;
        while n <= 512 {
            // rounds: [r1], n, then two small rounds in which stale responses are delivered
            let mut sizes: Vec<usize> = vec![];
            if r1 > 0 {
                sizes.push(r1);
            }
            sizes.push(n);
            sizes.push(3);
            sizes.push(2);
            let ctx = json!({"check":"C07","part":"A","initial_sequence":init,"round_sizes":sizes});
            let base = strat::run_strategy(tcp_cfg(init, &sizes, vec![]), Chooser::new(&[], 0));
            execs += 1;
            sends += monitor(&base, init, sizes.len(), &ctx, &mut local);
            rounds += base.world.publishes.len() as u64;
            let mut si = 0;
            for (r, k) in sizes.iter().enumerate() {
                if let Some(s) = base.world.sends.get(si) {
                    nodes.insert((0u8, s.seq, *k as u16));
                }
                si += k;
                let _ = r;
            }
            // separation clause, behaviourally: a response naming a sequence of the n-round,
            // delivered in the following round, must change nothing (inert replacement: 65535)
            if base.panic.is_none() && base.result.is_ok() {
                let nr = sizes.len() - 3; // index of the n-round
                let used: Vec<u16> = base.world.sends.iter().filter(|s| s.round == nr).map(|s| s.seq).collect();
                let call = nr + 1; // with one recv per round, recv call #k happens in round k
                let inert = strat::run_strategy(tcp_cfg(init, &sizes, vec![(call, u16::MAX)]), Chooser::new(&[], 0));
                execs += 1;
                if used.is_empty() {
                    // the run did not have the expected round structure (already reported by the monitor)
                    n += if n < 4 || n > 500 || (250..262).contains(&n) { 1 } else { nstep };
                    continue;
                }
                let mut xs = vec![used[0], *used.last().unwrap(), used[used.len() / 2]];
                // sequences of the n-round that map onto slots where earlier rounds left an
                // Awaited probe behind (their last slot)
                let next_start = base.world.sends.iter().find(|s| s.round == nr + 1).map_or(init, |s| s.seq);
                for stale_idx in [r1.wrapping_sub(1), n - 1] {
                    if let Some(x) = used.iter().find(|x| usize::from(x.wrapping_sub(next_start)) == stale_idx) {
                        xs.push(*x);
                    }
                }
                xs.sort_unstable();
                xs.dedup();
                let reused: Vec<u16> = base.world.sends.iter().filter(|s| s.round == nr + 1).map(|s| s.seq).collect();
                for x in xs {
                    let with = strat::run_strategy(tcp_cfg(init, &sizes, vec![(call, x)]), Chooser::new(&[], 0));
                    execs += 1;
                    diffs += 1;
                    if let Some(p) = &with.panic {
                        add(&mut local, format!("{}@stale-response", p.key()), format!("{} [{ctx}] stale sequence {x}", p.message), json!({"ctx":ctx,"stale_sequence":x,"deliver_at_recv_call":call}), n + r1);
                    } else if let Some(d) = same_publishes(&with, &inert) {
                        let regime = if init > 64511 { "initial-sequence>64511" } else if init > 63999 { "initial-sequence>63999" } else { "initial-sequence<=63999" };
                        let how = if reused.contains(&x) { "sequence-genuinely-reused" } else { "stale-slot" };
                        add(&mut local, format!("previous-round-sequence-valid-in-current-round:tcp:{regime}:{how}"), format!("a response naming sequence {x} of round {nr}, delivered in round {}, changed the trace: {d} [{ctx}]", nr + 1), json!({"ctx":ctx,"stale_sequence":x,"deliver_at_recv_call":call}), n + r1);
                    }
                }
            }
            n += if n < 4 || n > 500 || (250..262).contains(&n) { 1 } else { nstep };
        }
        // capacity: a round that needs a 513th slot ends the trace with a capacity error
        for (sizes, want_err) in [(vec![r1.max(1), 513usize], true), (vec![r1.max(1), 512usize, 1], false)] {
            let ctx = json!({"check":"C07","part":"capacity","initial_sequence":init,"round_sizes":sizes});
            let o = strat::run_strategy(tcp_cfg(init, &sizes, vec![]), Chooser::new(&[], 0));
            execs += 1;
            if let Some(p) = &o.panic {
                add(&mut local, format!("{}@capacity", p.key()), format!("{} at {}:{} [{ctx}]", p.message, p.file, p.line), ctx.clone(), 0);
            } else if want_err {
                match &o.result {
                    Err(e) if e.contains("InsufficientCapacity") => {}
                    other => add(&mut local, "capacity-not-reported".into(), format!("513 slots in a round gave {other:?} [{ctx}]"), ctx.clone(), 0),
                }
                if o.world.sends.iter().filter(|s| s.round == 1).count() != 512 {
                    add(&mut local, "capacity-slot-count".into(), format!("{} probes dispatched in the overflowing round [{ctx}]", o.world.sends.iter().filter(|s| s.round == 1).count()), ctx.clone(), 0);
                }
            } else if o.result.is_err() {
                add(&mut local, "capacity-false-error".into(), format!("512 slots gave {:?} [{ctx}]", o.result), ctx.clone(), 0);
            }
        }
        let mut t = totals.lock().unwrap();
        t.0.extend(nodes);
        t.1 += rounds;
        t.2 += execs;
        t.3 += sends;
        t.4 += diffs;
        drop(t);
        merge(&findings, local);
    });

    // ---- Part C: constant-step walks through two wraps (general regime) ---------------------
    let steps: Vec<usize> = (1..=512).collect();
    let walk_inits: Vec<u16> = if tier == Tier::Thorough { vec![0, 33434, 60000] } else { vec![33434] };
    let mut tasks_c = vec![];
    for &i in &walk_inits {
        for &n in &steps {
            if tier == Tier::Quick && n < 8 {
                continue; // tens of thousands of one-slot rounds: thorough only
            }
            tasks_c.push((i, n));
        }
    }
    mc::par_for(tasks_c.len(), mc::workers(), |ti| {
        let (init, n) = tasks_c[ti];
        let span = 65023usize - usize::from(init);
        let rounds = 2 * (span / n + 1) + 3;
        let sizes = vec![n; rounds];
        let ctx = json!({"check":"C07","part":"C","initial_sequence":init,"constant_round_size":n,"rounds":rounds});
        let o = strat::run_strategy(tcp_cfg(init, &sizes, vec![]), Chooser::new(&[], 0));
        let mut local = Findings::new();
        let sends = monitor(&o, init, rounds, &ctx, &mut local);
        let mut nodes = BTreeSet::new();
        for s in o.world.sends.iter().step_by(n) {
            nodes.insert((0u8, s.seq, n as u16));
        }
        let wraps = o.world.sends.windows(2).filter(|w| w[1].seq < w[0].seq).count();
        if o.panic.is_none() && wraps < 2 {
            add(&mut local, "MACHINERY-walk-did-not-wrap".into(), format!("{wraps} wraps [{ctx}]"), ctx.clone(), 0);
        }
        let mut t = totals.lock().unwrap();
        t.0.extend(nodes);
        t.1 += o.world.publishes.len() as u64;
        t.2 += 1;
        t.3 += sends;
        drop(t);
        merge(&findings, local);
    });

    // ---- Part D: Dublin/IPv6 regime ---------------------------------------------------------
    let ms: Vec<u8> = if tier == Tier::Thorough { (1..=254).collect() } else { vec![1, 2, 3, 7, 64, 127, 128, 170, 171, 253, 254] };
    let mut d_inits: Vec<u16> = if tier == Tier::Thorough { vec![0, 33434, 64511] } else { vec![33434, 64511] };
    d_inits.extend(&beyond);
    let mut tasks_d = vec![];
    for &i in &d_inits {
        for &m in &ms {
            tasks_d.push((i, m));
        }
    }
    mc::par_for(tasks_d.len(), mc::workers(), |ti| {
        let (init, m) = tasks_d[ti];
        let rounds = (2 * (512 / usize::from(m) + 1) + 2).min(if tier == Tier::Thorough { 1100 } else { 80 });
        let ctx = json!({"check":"C07","part":"D","regime":"dublin-ipv6","initial_sequence":init,"probes_per_round":m,"rounds":rounds});
        let base = strat::run_strategy(dublin_v6_cfg(init, m, rounds, vec![]), Chooser::new(&[], 0));
        let mut local = Findings::new();
        let sends = monitor(&base, init, rounds, &ctx, &mut local);
        let mut nodes = BTreeSet::new();
        let mut execs = 1u64;
        let mut diffs = 0u64;
        for s in base.world.sends.iter().step_by(usize::from(m)) {
            nodes.insert((1u8, s.seq, u16::from(m)));
            if s.seq.wrapping_sub(init) >= 512 + 254 {
                add(&mut local, "dublin-v6-sequence-out-of-regime".into(), format!("sequence {} with initial {init} [{ctx}]", s.seq), ctx.clone(), 0);
            }
        }
        if base.panic.is_none() && base.result.is_ok() {
            // at every wrap boundary (and the one before): stale response differential
            let firsts: Vec<u16> = (0..rounds).map(|r| base.world.sends[r * usize::from(m)].seq).collect();
            for r in 0..rounds - 1 {
                let wrapped = firsts[r + 1] <= firsts[r];
                if !(wrapped || (r + 2 < rounds && firsts[r + 2] <= firsts[r + 1])) {
                    continue;
                }
                let used: Vec<u16> = base.world.sends.iter().filter(|s| s.round == r).map(|s| s.seq).collect();
                // first recv call of round r+1
                let mut call = 0usize;
                for e in &base.world.events {
                    match e {
                        strat::Ev::Publish(i) if *i == r => break,
                        strat::Ev::Recv { .. } => call += 1,
                        _ => {}
                    }
                }
                let inert = strat::run_strategy(dublin_v6_cfg(init, m, rounds, vec![(call, u16::MAX)]), Chooser::new(&[], 0));
                execs += 1;
                if used.is_empty() {
                    continue;
                }
                let mut xs = vec![used[0], *used.last().unwrap()];
                xs.dedup();
                for x in xs {
                    let with = strat::run_strategy(dublin_v6_cfg(init, m, rounds, vec![(call, x)]), Chooser::new(&[], 0));
                    execs += 1;
                    diffs += 1;
                    if let Some(p) = &with.panic {
                        add(&mut local, format!("{}@stale-response-dublin-v6", p.key()), format!("{} [{ctx}] stale sequence {x}", p.message), json!({"ctx":ctx,"stale_sequence":x,"deliver_at_recv_call":call}), usize::from(m));
                    } else if let Some(d) = same_publishes(&with, &inert) {
                        add(&mut local, "previous-round-sequence-valid-in-current-round:dublin-ipv6".into(), format!("a response naming sequence {x} of round {r}, delivered in round {}, changed the trace: {d} [{ctx}]", r + 1), json!({"ctx":ctx,"stale_sequence":x,"deliver_at_recv_call":call}), usize::from(m));
                    }
                }
            }
        }
        let mut t = totals.lock().unwrap();
        t.0.extend(nodes);
        t.1 += base.world.publishes.len() as u64;
        t.2 += execs;
        t.3 += sends;
        t.4 += diffs;
        drop(t);
        merge(&findings, local);
    });

    // ---- Part F: explicit-state walk of the round-start graph (general regime) ----------------
    // state = the sequence number a round starts at; transition = one real round of a given size.
    // Breadth-first from the boundary initial sequences with the size alphabet below (it reaches
    // every start between the initial sequence and the wrap threshold in at most a few rounds);
    // EVERY (start, size) pair visited is one monitored execution - in particular every reachable
    // start is followed by a round of the full 512 numbers.
    let sizes_f: [usize; 11] = [512, 511, 510, 258, 257, 256, 255, 254, 3, 2, 1];
    let mut graph_inits: Vec<u16> = if tier == Tier::Thorough { vec![64511, 64256, 64000, 63999] } else { vec![64511] };
    graph_inits.extend(&beyond);
    let mut graph_states = 0u64;
    let mut graph_cap_hit = false;
    for &init in &graph_inits {
        let mut seen: std::collections::BTreeMap<u16, Vec<usize>> = std::collections::BTreeMap::new();
        seen.insert(init, vec![]);
        let mut frontier: Vec<(u16, Vec<usize>)> = vec![(init, vec![])];
        while !frontier.is_empty() {
            let results: Mutex<Vec<(u16, Vec<usize>)>> = Mutex::new(vec![]);
            mc::par_for(frontier.len(), mc::workers(), |fi| {
                let (start, path) = &frontier[fi];
                let mut local = Findings::new();
                let mut nodes = BTreeSet::new();
                let (mut rounds, mut execs, mut sends) = (0u64, 0u64, 0u64);
                let mut succ = vec![];
                for &n in &sizes_f {
                    let mut sizes = path.clone();
                    sizes.push(n);
                    sizes.push(1);
                    let ctx = json!({"check":"C07","part":"F","initial_sequence":init,"round_start":start,"round_sizes":sizes});
                    let o = strat::run_strategy(tcp_cfg(init, &sizes, vec![]), Chooser::new(&[], 0));
                    execs += 1;
                    sends += monitor(&o, init, sizes.len(), &ctx, &mut local);
                    rounds += o.world.publishes.len() as u64;
                    nodes.insert((0u8, *start, n as u16));
                    if o.panic.is_none() && o.result.is_ok() {
                        if let Some(s) = o.world.sends.iter().find(|s| s.round == sizes.len() - 1) {
                            let mut p = path.clone();
                            p.push(n);
                            succ.push((s.seq, p));
                        }
                    }
                }
                results.lock().unwrap().extend(succ);
                let mut t = totals.lock().unwrap();
                t.0.extend(nodes);
                t.1 += rounds;
                t.2 += execs;
                t.3 += sends;
                drop(t);
                merge(&findings, local);
            });
            let mut next = results.into_inner().unwrap();
            next.sort();
            frontier = vec![];
            for (s, p) in next {
                if seen.len() >= 1500 {
                    graph_cap_hit = true;
                    break;
                }
                if !seen.contains_key(&s) {
                    seen.insert(s, p.clone());
                    frontier.push((s, p));
                }
            }
        }
        graph_states += seen.len() as u64;
    }
    rep.set("round_start_graph_states", json!(graph_states));
    if graph_cap_hit {
        rep.cap_hit = Some("round-start graph: more than 1500 distinct round starts from one initial sequence".into());
    }

    // ---- Part G: the Dublin/IPv6 regime with TCP (accepted by Builder::build): rounds of up to 512
    // numbers (re-issue bursts) against a numbering that restarts 512 after the initial sequence
    {
        let target: IpAddr = IpAddr::V6("fd00::a09:909".parse().unwrap());
        let accepted = trippy_core::Builder::new(target)
            .protocol(Protocol::Tcp)
            .multipath_strategy(MultipathStrategy::Dublin)
            .port_direction(PortDirection::new_fixed_src(5000))
            .build()
            .is_ok();
        rep.set("builder_accepts_tcp_dublin_ipv6", json!(accepted));
        if accepted {
            let mut local = Findings::new();
            let (mut rounds, mut execs, mut sends) = (0u64, 0u64, 0u64);
            for init in [33434u16, 0] {
                for sizes in [vec![300usize, 300, 300, 3], vec![1, 511, 512, 2], vec![256, 257, 258, 2], vec![512, 512, 1]] {
                    let mut cfg = tcp_cfg(init, &sizes, vec![]);
                    cfg.strategy.multipath_strategy = MultipathStrategy::Dublin;
                    cfg.strategy.target_addr = target;
                    let ctx = json!({"check":"C07","part":"G","regime":"dublin-ipv6","protocol":"tcp","initial_sequence":init,"round_sizes":sizes});
                    let o = strat::run_strategy(cfg, Chooser::new(&[], 0));
                    execs += 1;
                    sends += monitor(&o, init, sizes.len(), &ctx, &mut local);
                    rounds += o.world.publishes.len() as u64;
                }
            }
            let mut t = totals.lock().unwrap();
            t.1 += rounds;
            t.2 += execs;
            t.3 += sends;
            drop(t);
            merge(&findings, local);
        }
    }

    // ---- Part E: Dublin/IPv6 at wire level: payload length = sequence - initial + 6 and fits --
    let mut wire_checked = 0u64;
    {
        let cell = Cell { proto: Proto::Udp, v6: true, strategy: MultipathStrategy::Dublin, ports: Ports::FixedBoth, privileged: true, ext: false };
        for init in [0u16, 33434, 64511] {
            let p = TraceParams {
                packet_size: 100,
                first_ttl: 1,
                max_ttl: 254,
                max_inflight: 255,
                rounds: 7,
                initial_sequence: init,
                read_timeout: Duration::from_micros(10),
                min_round: Duration::from_micros(10 * 257),
                max_round: Duration::from_micros(10 * 257),
                grace: Duration::from_micros(1),
                ..TraceParams::default()
            };
            let net = drive::net_cfg(&cell, &p, drive::topo_linear(&cell, 1, Target::Silent), Menu::default());
            let o = drive::run_trace(&cell, &p, net, Chooser::new(&[], 0));
            let mut local = Findings::new();
            if let Some(pn) = &o.panic {
                add(&mut local, format!("{}@wire", pn.key()), pn.message.clone(), json!({"check":"C07","part":"E","initial_sequence":init}), 0);
            }
            if let Err(e) = &o.result {
                add(&mut local, "wire-run-error".into(), e.clone(), json!({"check":"C07","part":"E","initial_sequence":init}), 0);
            }
            for (r, publ) in o.world.publishes.iter().enumerate() {
                let sent: Vec<_> = o.world.sent.iter().filter(|s| s.round == r).collect();
                for (s, slot) in sent.iter().zip(&publ.probes) {
                    wire_checked += 1;
                    if let trippy_core::ProbeStatus::Awaited(probe) = slot {
                        for (k, d) in crate::c11::check_datagram(&cell, &p, s, probe, r) {
                            add(&mut local, format!("wire:{k}"), format!("init {init} round {r}: {d}"), json!({"check":"C07","part":"E","initial_sequence":init}), 0);
                        }
                        if s.wire.len() > 1024 {
                            add(&mut local, "wire:exceeds-buffer".into(), format!("{} octets", s.wire.len()), json!({"check":"C07","part":"E","initial_sequence":init}), 0);
                        }
                    }
                }
            }
            merge(&findings, local);
        }
    }

    let (nodes, rounds, execs, sends, diffs) = totals.into_inner().unwrap();
    rep.merge_findings(findings.into_inner().unwrap());
    rep.set("states", json!(nodes.len()));
    rep.set("transitions", json!(rounds));
    rep.set("traces_validated_against_impl", json!(execs));
    rep.set("evaluations", json!(sends + wire_checked));
    rep.set("distinct_nontrivial", json!(nodes.len()));
    rep.set("stale_response_differentials", json!(diffs));
    rep.set("wire_level_datagrams_checked", json!(wire_checked));
    rep.set("rule", json!("state = (regime, round-start sequence, round size); transition = one round of the real Strategy::run. Boundary initial sequences = the fixed list below 64512 + whatever Builder::build accepts above 64511 (all 1024 values asked). A: from boundary initial sequences, first round r1 then a round of every size n in 1..=512 (TCP re-issue bursts), + capacity (513th slot => InsufficientCapacity, 512 fine); after the n-round a response naming its first/middle/last sequence is delivered in the next round and the published rounds must equal those of a run where that response names 65535 (never valid). C: constant-size walks through two wrap-arounds for every size. D: Dublin/IPv6 regime, every probes-per-round value, stale-response differential at each wrap. E: wire level Dublin/IPv6 payload length. F: breadth-first walk of the round-start graph from the boundary initial sequences with round sizes {512,511,510,258,257,256,255,254,3,2,1}: every reachable round start x every size is one monitored execution. Monitor: consecutive, < 65535, <= 512 per round, next round starts at last+1 or the initial sequence, round ids"));
    rep.sample(json!({"part":"A","initial_sequence":64511,"round_sizes":[255,258,3,2],"stale_sequence":"first of round 1, delivered at the first receive of round 2"}));
    rep.sample(json!({"part":"D","initial_sequence":33434,"probes_per_round":171,"note":"wraps every third round"}));
    rep.assumptions = vec!["round sizes above 254 are produced by TCP AddressInUse re-issue bursts at the Network seam".into()];
    rep.finish()
}

fn merge(findings: &Mutex<Findings>, local: Findings) {
    let mut g = findings.lock().unwrap();
    for (k, f) in local {
        match g.get_mut(&k) {
            Some(o) => {
                o.count += f.count;
                if f.weight < o.weight {
                    let c = o.count;
                    *o = f;
                    o.count = c;
                }
            }
            None => {
                g.insert(k, f);
            }
        }
    }
}
