//! Independent wire codec written from the RFCs (791, 8200, 792, 4443, 768, 9293, 1071, 4884,
//! 4950).  It never calls `trippy-packet`.  Used to decode what the tracer sent and to encode what
//! routers / targets answer.

use std::net::{IpAddr, Ipv4Addr, Ipv6Addr};

pub const PROTO_ICMP: u8 = 1;
pub const PROTO_TCP: u8 = 6;
pub const PROTO_UDP: u8 = 17;
pub const PROTO_ICMPV6: u8 = 58;

/// RFC 1071: 64-bit accumulate of big-endian 16-bit words (odd trailing byte padded with zero).
pub fn sum_words(data: &[u8], mut acc: u64) -> u64 {
    let mut i = 0;
    while i + 1 < data.len() {
        acc += u64::from(u16::from_be_bytes([data[i], data[i + 1]]));
        i += 2;
    }
    if i < data.len() {
        acc += u64::from(u16::from_be_bytes([data[i], 0]));
    }
    acc
}

pub fn fold(mut acc: u64) -> u16 {
    while acc >> 16 != 0 {
        acc = (acc & 0xffff) + (acc >> 16);
    }
    acc as u16
}

/// One's-complement checksum of `data` (checksum field must already be zero in `data`).
pub fn cksum(data: &[u8], pseudo: u64) -> u16 {
    !fold(sum_words(data, pseudo))
}

pub fn pseudo_v4(src: Ipv4Addr, dst: Ipv4Addr, proto: u8, len: usize) -> u64 {
    let mut acc = sum_words(&src.octets(), 0);
    acc = sum_words(&dst.octets(), acc);
    acc + u64::from(proto) + len as u64
}

pub fn pseudo_v6(src: Ipv6Addr, dst: Ipv6Addr, next: u8, len: usize) -> u64 {
    let mut acc = sum_words(&src.octets(), 0);
    acc = sum_words(&dst.octets(), acc);
    // upper-layer packet length (32 bit) + 3 zero octets + next header
    acc + (len as u64 >> 16) + (len as u64 & 0xffff) + u64::from(next)
}

pub fn pseudo(src: IpAddr, dst: IpAddr, proto: u8, len: usize) -> u64 {
    match (src, dst) {
        (IpAddr::V4(s), IpAddr::V4(d)) => pseudo_v4(s, d, proto, len),
        (IpAddr::V6(s), IpAddr::V6(d)) => pseudo_v6(s, d, proto, len),
        _ => panic!("MACHINERY: mixed address families"),
    }
}

/// Does `data` (checksum included) verify, i.e. fold to 0xFFFF?
pub fn verifies(data: &[u8], pseudo: u64) -> bool {
    fold(sum_words(data, pseudo)) == 0xffff
}

// ------------------------------------------------------------------------------------------
// IPv4

#[derive(Debug, Clone, PartialEq, Eq)]
pub struct Ip4 {
    pub version: u8,
    pub ihl: u8,
    pub tos: u8,
    pub total_len: u16,
    pub id: u16,
    pub flags_frag: u16,
    pub ttl: u8,
    pub proto: u8,
    pub cksum: u16,
    pub src: Ipv4Addr,
    pub dst: Ipv4Addr,
    pub options: Vec<u8>,
}

pub fn parse_ip4(b: &[u8]) -> Option<(Ip4, usize)> {
    if b.len() < 20 {
        return None;
    }
    let ihl = b[0] & 0x0f;
    let hl = usize::from(ihl) * 4;
    if hl < 20 || b.len() < hl {
        return None;
    }
    Some((
        Ip4 {
            version: b[0] >> 4,
            ihl,
            tos: b[1],
            total_len: u16::from_be_bytes([b[2], b[3]]),
            id: u16::from_be_bytes([b[4], b[5]]),
            flags_frag: u16::from_be_bytes([b[6], b[7]]),
            ttl: b[8],
            proto: b[9],
            cksum: u16::from_be_bytes([b[10], b[11]]),
            src: Ipv4Addr::new(b[12], b[13], b[14], b[15]),
            dst: Ipv4Addr::new(b[16], b[17], b[18], b[19]),
            options: b[20..hl].to_vec(),
        },
        hl,
    ))
}

/// Build an IPv4 datagram; header checksum is computed.  `options.len()` must be a multiple of 4.
#[allow(clippy::too_many_arguments)]
pub fn build_ip4(
    tos: u8,
    id: u16,
    flags_frag: u16,
    ttl: u8,
    proto: u8,
    src: Ipv4Addr,
    dst: Ipv4Addr,
    options: &[u8],
    payload: &[u8],
) -> Vec<u8> {
    assert!(options.len() % 4 == 0 && options.len() <= 40);
    let hl = 20 + options.len();
    let mut b = vec![0u8; hl];
    b[0] = 0x40 | (hl / 4) as u8;
    b[1] = tos;
    b[2..4].copy_from_slice(&((hl + payload.len()) as u16).to_be_bytes());
    b[4..6].copy_from_slice(&id.to_be_bytes());
    b[6..8].copy_from_slice(&flags_frag.to_be_bytes());
    b[8] = ttl;
    b[9] = proto;
    b[12..16].copy_from_slice(&src.octets());
    b[16..20].copy_from_slice(&dst.octets());
    b[20..hl].copy_from_slice(options);
    let c = cksum(&b, 0);
    b[10..12].copy_from_slice(&c.to_be_bytes());
    b.extend_from_slice(payload);
    b
}

/// Recompute the IPv4 header checksum in place.
pub fn fix_ip4_cksum(b: &mut [u8]) {
    let hl = usize::from(b[0] & 0x0f) * 4;
    b[10] = 0;
    b[11] = 0;
    let c = cksum(&b[..hl], 0);
    b[10..12].copy_from_slice(&c.to_be_bytes());
}

// ------------------------------------------------------------------------------------------
// IPv6

#[derive(Debug, Clone, PartialEq, Eq)]
pub struct Ip6 {
    pub version: u8,
    pub tclass: u8,
    pub flow: u32,
    pub payload_len: u16,
    pub next: u8,
    pub hop_limit: u8,
    pub src: Ipv6Addr,
    pub dst: Ipv6Addr,
}

pub fn parse_ip6(b: &[u8]) -> Option<Ip6> {
    if b.len() < 40 {
        return None;
    }
    let mut s = [0u8; 16];
    s.copy_from_slice(&b[8..24]);
    let mut d = [0u8; 16];
    d.copy_from_slice(&b[24..40]);
    Some(Ip6 {
        version: b[0] >> 4,
        tclass: (b[0] << 4) | (b[1] >> 4),
        flow: (u32::from(b[1] & 0x0f) << 16) | (u32::from(b[2]) << 8) | u32::from(b[3]),
        payload_len: u16::from_be_bytes([b[4], b[5]]),
        next: b[6],
        hop_limit: b[7],
        src: Ipv6Addr::from(s),
        dst: Ipv6Addr::from(d),
    })
}

pub fn build_ip6(
    tclass: u8,
    flow: u32,
    next: u8,
    hop_limit: u8,
    src: Ipv6Addr,
    dst: Ipv6Addr,
    payload: &[u8],
) -> Vec<u8> {
    let mut b = vec![0u8; 40];
    b[0] = 0x60 | (tclass >> 4);
    b[1] = (tclass << 4) | ((flow >> 16) as u8 & 0x0f);
    b[2] = (flow >> 8) as u8;
    b[3] = flow as u8;
    b[4..6].copy_from_slice(&(payload.len() as u16).to_be_bytes());
    b[6] = next;
    b[7] = hop_limit;
    b[8..24].copy_from_slice(&src.octets());
    b[24..40].copy_from_slice(&dst.octets());
    b.extend_from_slice(payload);
    b
}

// ------------------------------------------------------------------------------------------
// ICMP / ICMPv6

pub const ICMP4_ECHO_REPLY: u8 = 0;
pub const ICMP4_UNREACH: u8 = 3;
pub const ICMP4_ECHO_REQUEST: u8 = 8;
pub const ICMP4_TIME_EXCEEDED: u8 = 11;
pub const ICMP6_UNREACH: u8 = 1;
pub const ICMP6_TIME_EXCEEDED: u8 = 3;
pub const ICMP6_ECHO_REQUEST: u8 = 128;
pub const ICMP6_ECHO_REPLY: u8 = 129;

#[derive(Debug, Clone, PartialEq, Eq)]
pub struct Echo {
    pub typ: u8,
    pub code: u8,
    pub cksum: u16,
    pub id: u16,
    pub seq: u16,
    pub payload: Vec<u8>,
}

pub fn parse_echo(b: &[u8]) -> Option<Echo> {
    if b.len() < 8 {
        return None;
    }
    Some(Echo {
        typ: b[0],
        code: b[1],
        cksum: u16::from_be_bytes([b[2], b[3]]),
        id: u16::from_be_bytes([b[4], b[5]]),
        seq: u16::from_be_bytes([b[6], b[7]]),
        payload: b[8..].to_vec(),
    })
}

/// ICMP echo message (v4: pseudo = 0; v6: pseudo header sum).
pub fn build_echo(typ: u8, id: u16, seq: u16, payload: &[u8], pseudo: Option<(IpAddr, IpAddr)>) -> Vec<u8> {
    let mut b = vec![typ, 0, 0, 0];
    b.extend_from_slice(&id.to_be_bytes());
    b.extend_from_slice(&seq.to_be_bytes());
    b.extend_from_slice(payload);
    let ps = pseudo.map_or(0, |(s, d)| self::pseudo(s, d, PROTO_ICMPV6, b.len()));
    let c = cksum(&b, ps);
    b[2..4].copy_from_slice(&c.to_be_bytes());
    b
}

/// ICMP error message (Time Exceeded / Destination Unreachable).
///
/// `len_field` is the RFC 4884 length attribute (v4: octet 5, 32-bit words; v6: octet 4, 64-bit
/// words).  `body` = original datagram field (+ extension structure).
pub fn build_icmp_error(v6: bool, typ: u8, code: u8, len_field: u8, body: &[u8], pseudo: Option<(IpAddr, IpAddr)>) -> Vec<u8> {
    let mut b = vec![typ, code, 0, 0, 0, 0, 0, 0];
    if v6 {
        b[4] = len_field;
    } else {
        b[5] = len_field;
    }
    b.extend_from_slice(body);
    let ps = if v6 {
        let (s, d) = pseudo.expect("MACHINERY: v6 icmp needs pseudo header");
        self::pseudo(s, d, PROTO_ICMPV6, b.len())
    } else {
        0
    };
    let c = cksum(&b, ps);
    b[2..4].copy_from_slice(&c.to_be_bytes());
    b
}

// ------------------------------------------------------------------------------------------
// UDP / TCP

#[derive(Debug, Clone, PartialEq, Eq)]
pub struct Udp {
    pub sport: u16,
    pub dport: u16,
    pub len: u16,
    pub cksum: u16,
    pub payload: Vec<u8>,
}

pub fn parse_udp(b: &[u8]) -> Option<Udp> {
    if b.len() < 8 {
        return None;
    }
    Some(Udp {
        sport: u16::from_be_bytes([b[0], b[1]]),
        dport: u16::from_be_bytes([b[2], b[3]]),
        len: u16::from_be_bytes([b[4], b[5]]),
        cksum: u16::from_be_bytes([b[6], b[7]]),
        payload: b[8..].to_vec(),
    })
}

pub fn build_udp(sport: u16, dport: u16, payload: &[u8], src: IpAddr, dst: IpAddr) -> Vec<u8> {
    let mut b = vec![];
    b.extend_from_slice(&sport.to_be_bytes());
    b.extend_from_slice(&dport.to_be_bytes());
    b.extend_from_slice(&((8 + payload.len()) as u16).to_be_bytes());
    b.extend_from_slice(&[0, 0]);
    b.extend_from_slice(payload);
    let c = cksum(&b, pseudo(src, dst, PROTO_UDP, b.len()));
    let c = if c == 0 { 0xffff } else { c };
    b[6..8].copy_from_slice(&c.to_be_bytes());
    b
}

/// A TCP SYN segment as a kernel would emit it (MSS + SACK-permitted + timestamps + wscale).
pub fn build_tcp_syn(sport: u16, dport: u16, src: IpAddr, dst: IpAddr) -> Vec<u8> {
    let mut b = vec![0u8; 40];
    b[0..2].copy_from_slice(&sport.to_be_bytes());
    b[2..4].copy_from_slice(&dport.to_be_bytes());
    b[4..8].copy_from_slice(&0x1a2b_3c4du32.to_be_bytes());
    b[12] = 10 << 4;
    b[13] = 0x02;
    b[14..16].copy_from_slice(&64240u16.to_be_bytes());
    let opts: [u8; 20] = [2, 4, 5, 0xb4, 4, 2, 8, 10, 1, 2, 3, 4, 0, 0, 0, 0, 1, 3, 3, 7];
    b[20..40].copy_from_slice(&opts);
    let c = cksum(&b, pseudo(src, dst, PROTO_TCP, b.len()));
    b[16..18].copy_from_slice(&c.to_be_bytes());
    b
}

// ------------------------------------------------------------------------------------------
// RFC 4884 / RFC 4950

#[derive(Debug, Clone, PartialEq, Eq)]
pub struct MplsMember {
    pub label: u32,
    pub exp: u8,
    pub bos: u8,
    pub ttl: u8,
}

#[derive(Debug, Clone, PartialEq, Eq)]
pub enum ExtObj {
    Mpls(Vec<MplsMember>),
    /// (class-num, c-type, payload)
    Other(u8, u8, Vec<u8>),
}

pub fn build_ext_object(o: &ExtObj) -> Vec<u8> {
    let (class, ctype, payload) = match o {
        ExtObj::Mpls(ms) => {
            let mut p = vec![];
            for m in ms {
                let w: u32 = (m.label & 0xf_ffff) << 12
                    | u32::from(m.exp & 7) << 9
                    | u32::from(m.bos & 1) << 8
                    | u32::from(m.ttl);
                p.extend_from_slice(&w.to_be_bytes());
            }
            (1u8, 1u8, p)
        }
        ExtObj::Other(c, t, p) => (*c, *t, p.clone()),
    };
    let mut b = vec![];
    b.extend_from_slice(&((4 + payload.len()) as u16).to_be_bytes());
    b.push(class);
    b.push(ctype);
    b.extend_from_slice(&payload);
    b
}

/// Extension structure: header (version 2, checksum) + objects.
pub fn build_ext_structure(objs: &[ExtObj]) -> Vec<u8> {
    let mut b = vec![0x20, 0, 0, 0];
    for o in objs {
        b.extend_from_slice(&build_ext_object(o));
    }
    let c = cksum(&b, 0);
    b[2..4].copy_from_slice(&c.to_be_bytes());
    b
}

/// How the original datagram field + extension are laid out.
#[derive(Debug, Clone, Copy, PartialEq, Eq)]
pub enum ExtLayout {
    /// RFC 4884 compliant: original datagram zero padded to max(128, len) rounded up to the
    /// word size, length attribute set.
    Compliant,
    /// Legacy: original datagram truncated/padded to exactly 128 octets, length attribute 0.
    Legacy128,
}

/// Returns (length attribute, body) for an ICMP error carrying `orig` and `ext`.
pub fn rfc4884_body(v6: bool, orig: &[u8], ext: &[u8], layout: ExtLayout) -> (u8, Vec<u8>) {
    let word = if v6 { 8 } else { 4 };
    match layout {
        ExtLayout::Compliant => {
            let mut n = orig.len().max(128);
            n = n.div_ceil(word) * word;
            let mut b = orig.to_vec();
            b.resize(n, 0);
            b.extend_from_slice(ext);
            ((n / word) as u8, b)
        }
        ExtLayout::Legacy128 => {
            let mut b = orig.to_vec();
            b.resize(128, 0);
            b.extend_from_slice(ext);
            (0, b)
        }
    }
}

// ------------------------------------------------------------------------------------------
// Self-test against captures embedded in the repository's own unit tests.

pub fn self_test() {
    // crates/trippy-core/src/net/ipv4.rs test_recv_icmp_probe_time_exceeded_icmp_no_extensions:
    // a real capture of an ICMP Time Exceeded quoting an ICMP Echo Request.
    let mut cap: Vec<u8> = vec![
        0x45, 0x20, 0x00, 0x70, 0x07, 0xd7, 0x00, 0x00, 0x3b, 0x01, 0xe9, 0x5d, 0x8e, 0xfa, 0x3d, 0x81,
        0xc0, 0xa8, 0x01, 0x15, 0x0b, 0x00, 0xf4, 0xff, 0x00, 0x00, 0x00, 0x00, 0x45, 0x60, 0x00, 0x54,
        0x65, 0xb0, 0x40, 0x00, 0x01, 0x01, 0xe4, 0x11, 0xc0, 0xa8, 0x01, 0x15, 0x8e, 0xfb, 0xde, 0xce,
        0x08, 0x00, 0x01, 0x11, 0x75, 0xd7, 0x81, 0x17,
    ];
    cap.resize(112, 0);
    let (ip, off) = parse_ip4(&cap).expect("MACHINERY: wire self-test parse");
    assert!(off == 20 && ip.version == 4 && ip.total_len == 112 && ip.ttl == 0x3b && ip.proto == 1);
    assert!(verifies(&cap[..20], 0), "MACHINERY: wire self-test outer ip checksum");
    assert!(verifies(&cap[20..], 0), "MACHINERY: wire self-test icmp checksum");
    assert!(verifies(&cap[28..48], 0), "MACHINERY: wire self-test quoted ip checksum");
    let (qip, _) = parse_ip4(&cap[28..]).expect("MACHINERY: wire self-test parse quoted");
    assert!(qip.tos == 0x60 && qip.ttl == 1 && qip.flags_frag == 0x4000 && qip.total_len == 84);
    let echo = build_echo(ICMP4_ECHO_REQUEST, 0x75d7, 0x8117, &[0u8; 56], None);
    assert_eq!(&echo[..], &cap[48..112], "MACHINERY: wire self-test echo rebuild");
    let quoted = build_ip4(qip.tos, qip.id, qip.flags_frag, qip.ttl, qip.proto, qip.src, qip.dst, &[], &echo);
    assert_eq!(&quoted[..], &cap[28..112], "MACHINERY: wire self-test quoted rebuild");
    let icmp = build_icmp_error(false, ICMP4_TIME_EXCEEDED, 0, 0, &quoted, None);
    let rebuilt = build_ip4(ip.tos, ip.id, ip.flags_frag, ip.ttl, ip.proto, ip.src, ip.dst, &[], &icmp);
    assert_eq!(rebuilt, cap, "MACHINERY: wire self-test full rebuild");
    // RFC 1071 worked example: 00 01 f2 03 f4 f5 f6 f7 -> sum ddf2 -> checksum 220d
    assert_eq!(cksum(&[0x00, 0x01, 0xf2, 0x03, 0xf4, 0xf5, 0xf6, 0xf7], 0), 0x220d);
    // extension structure from crates/trippy-packet/src/icmp_extension.rs tests (real capture):
    // 20 00 99 3a | 00 08 01 01 | 04 bb 41 01  -> MPLS label 19380, exp 0, S 1, ttl 1
    let m = build_ext_structure(&[ExtObj::Mpls(vec![MplsMember { label: 19380, exp: 0, bos: 1, ttl: 1 }])]);
    assert_eq!(
        m,
        vec![0x20, 0x00, 0x99, 0x3a, 0x00, 0x08, 0x01, 0x01, 0x04, 0xbb, 0x41, 0x01],
        "MACHINERY: wire self-test ext structure"
    );
}
