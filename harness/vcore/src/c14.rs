//! C14 — ICMP multi-part extensions are parsed faithfully and always terminate.
//! Exhaustive over a grammar of RFC 4884 / RFC 4950 messages, through the real receive path
//! (`Channel<SimSocket>::recv_probe`) and the packet views; plus systematic corruptions.

use crate::drive::{self, Cell, Ports, TraceParams};
use crate::mc::{self, Chooser};
use crate::pkt;
use crate::report::{Args, Finding, Report, Tier};
use crate::simnet::{self, Menu, Proto, Target};
use crate::wire::{self, ExtLayout, ExtObj, MplsMember};
use serde_json::json;
use std::collections::BTreeMap;
use std::net::SocketAddr;
use std::sync::Mutex;
use trippy_core::verif::{Network, Response};
use trippy_core::{Extension, Extensions, MultipathStrategy};
use trippy_packet::{icmpv4, icmpv6};

type Findings = BTreeMap<String, Finding>;

fn add(findings: &mut Findings, key: String, detail: String, replay: serde_json::Value, weight: usize) {
    let e = findings.entry(key.clone()).or_insert_with(|| Finding { key, detail: detail.clone(), replay: replay.clone(), weight: (0, usize::MAX), count: 0 });
    e.count += 1;
    if (0, weight) < e.weight {
        e.detail = detail;
        e.replay = replay;
        e.weight = (0, weight);
    }
}

fn member(i: usize, last: bool) -> MplsMember {
    let labels = [0u32, 1, 19380, 0xfffff, 0x80000, 0x7ffff];
    let exps = [0u8, 7, 5, 2];
    let ttls = [0u8, 1, 255, 64];
    MplsMember { label: labels[i % labels.len()], exp: exps[i % exps.len()], bos: u8::from(last), ttl: ttls[i % ttls.len()] }
}

fn alphabet() -> Vec<ExtObj> {
    vec![
        ExtObj::Mpls(vec![member(0, true)]),
        ExtObj::Mpls(vec![member(1, false), member(2, true)]),
        ExtObj::Mpls(vec![member(3, false), member(4, false), member(5, true)]),
        // stacks whose last entry does not carry the S bit, and an S bit before the
        // end of the object (RFC 3032: the stack ends at the first S=1 entry): what follows the
        // object must never be read as further entries
        ExtObj::Mpls(vec![member(1, false)]),
        ExtObj::Mpls(vec![member(2, true), member(3, false)]),
        ExtObj::Other(2, 1, vec![]),
        // object lengths that are not a multiple of four (RFC 4884 counts octets): the next object
        // starts right behind
        ExtObj::Other(2, 2, vec![0xab]),
        ExtObj::Other(3, 1, vec![1, 2, 3]),
        ExtObj::Other(2, 3, vec![0xde, 0xad, 0xbe, 0xef]),
        ExtObj::Other(3, 0, vec![1, 2, 3, 4, 5, 6, 7, 8]),
        ExtObj::Other(255, 255, vec![0xff, 0x00, 0xff, 0x00]),
    ]
}

fn object_lists(max_len: usize) -> Vec<Vec<ExtObj>> {
    let a = alphabet();
    let mut out = vec![vec![]];
    let mut frontier: Vec<Vec<ExtObj>> = vec![vec![]];
    for _ in 0..max_len {
        let mut next = vec![];
        for l in &frontier {
            for o in &a {
                let mut n = l.clone();
                n.push(o.clone());
                next.push(n);
            }
        }
        out.extend(next.iter().cloned());
        frontier = next;
    }
    out
}

fn expected_extensions(objs: &[ExtObj]) -> Extensions {
    Extensions {
        extensions: objs
            .iter()
            .map(|o| match o {
                ExtObj::Mpls(ms) => Extension::Mpls(trippy_core::MplsLabelStack {
                    members: ms
                        .iter()
                        // the stack ends at the first bottom-of-stack entry (RFC 3032)
                        .scan(false, |done, m| {
                            if *done {
                                None
                            } else {
                                *done = m.bos != 0;
                                Some(m)
                            }
                        })
                        .map(|m| trippy_core::MplsLabelStackMember { label: m.label, exp: m.exp, bos: m.bos, ttl: m.ttl })
                        .collect(),
                }),
                ExtObj::Other(c, t, p) => Extension::Unknown(trippy_core::UnknownExtension { class_num: *c, class_subtype: *t, bytes: p.clone() }),
            })
            .collect(),
    }
}

/// (payload, extension) as the packet views split the ICMP message.
fn view_split(v6: bool, te: bool, icmp: &[u8]) -> Result<(Vec<u8>, Option<Vec<u8>>), String> {
    macro_rules! go {
        ($ty:ty) => {{
            let p = <$ty>::new_view(icmp).map_err(|e| format!("{e:?}"))?;
            Ok((p.payload().to_vec(), p.extension().map(<[u8]>::to_vec)))
        }};
    }
    match (v6, te) {
        (false, true) => go!(icmpv4::time_exceeded::TimeExceededPacket<'_>),
        (false, false) => go!(icmpv4::destination_unreachable::DestinationUnreachablePacket<'_>),
        (true, true) => go!(icmpv6::time_exceeded::TimeExceededPacket<'_>),
        (true, false) => go!(icmpv6::destination_unreachable::DestinationUnreachablePacket<'_>),
    }
}

struct Unit {
    cell: Cell,
    te: bool,
    layout: ExtLayout,
}

pub fn replay(path: &str) -> i32 {
    let s = std::fs::read_to_string(path).expect("MACHINERY: cannot read replay file");
    let v: serde_json::Value = serde_json::from_str(&s).expect("MACHINERY: replay JSON");
    let r = if v.get("replay").is_some() { &v["replay"] } else { &v };
    let ctx = r["ctx"].as_str().unwrap_or("");
    let mut parts = ctx.split(' ');
    let cell_name = parts.next().unwrap_or("");
    let te = parts.next() == Some("TE");
    let cell = drive::all_cells().into_iter().find(|c| c.name() == cell_name).expect("MACHINERY: cell in ctx");
    let bytes = |k: &str| -> Option<Vec<u8>> { r.get(k).and_then(|d| d.as_array()).map(|d| d.iter().map(|b| b.as_u64().unwrap() as u8).collect()) };
    let mut bad = 0;
    let icmp: Vec<u8> = match (bytes("icmp"), bytes("datagram")) {
        (Some(i), _) => i,
        (None, Some(d)) => if cell.v6 { d.clone() } else { d[20.min(d.len())..].to_vec() },
        _ => panic!("MACHINERY: no bytes in replay"),
    };
    println!("replay C14 [{ctx}] ICMP message {} octets", icmp.len());
    match mc::catch(|| view_split(cell.v6, te, &icmp)) {
        Err(p) => {
            println!("DISCREPANCY {}: {}", p.key(), p.message);
            bad += 1;
        }
        Ok(Err(e)) => println!("views refuse the buffer: {e}"),
        Ok(Ok((payload, ext))) => println!("payload() {} octets, extension() {:?} octets", payload.len(), ext.as_ref().map(Vec::len)),
    }
    if let Some(d) = bytes("datagram") {
        let p = TraceParams { packet_size: 1024, initial_sequence: 33434, pattern: 0xa5, ..TraceParams::default() };
        let net = drive::net_cfg(&cell, &p, drive::topo_linear(&cell, 3, Target::Silent), Menu::default());
        simnet::install(net, Chooser::new(&[], 0));
        {
            let mut ch = drive::make_channel(&cell, &p).expect("MACHINERY: channel connect");
            let peer = cell.v6.then(|| SocketAddr::new(cell.hop_addr(1, 0), 0));
            simnet::with(|w| w.inject.push_back((d, peer)));
            match mc::catch(|| ch.recv_probe()) {
                Err(p) => {
                    println!("DISCREPANCY {}: {} at {}:{}", p.key(), p.message, p.file, p.line);
                    bad += 1;
                }
                Ok(x) => println!("recv_probe -> {x:?}"),
            }
        }
        let _ = simnet::take();
    }
    if bad == 0 {
        println!("replay: no panic; compare the printed result with the 'detail' of the artefact (encoded objects vs decoded)");
        0
    } else {
        println!("VIOLATION property=C14 replay={path}");
        1
    }
}

pub fn run(args: &Args) -> i32 {
    if let Some(path) = &args.replay {
        return replay(path);
    }
    let tier = args.tier;
    let mut rep = Report::new("C14", tier, "exploration");
    let findings: Mutex<Findings> = Mutex::new(Findings::new());
    let lists = object_lists(if tier == Tier::Thorough { 4 } else { 3 });
    let mut units = vec![];
    for v6 in [false, true] {
        for ext in [true, false] {
            for (proto, strategy, ports) in [
                (Proto::Icmp, MultipathStrategy::Classic, Ports::None),
                (Proto::Udp, MultipathStrategy::Dublin, Ports::FixedBoth),
                (Proto::Tcp, MultipathStrategy::Classic, Ports::FixedDest),
            ] {
                if tier == Tier::Quick && proto == Proto::Tcp && !ext {
                    continue;
                }
                for te in [true, false] {
                    for layout in [ExtLayout::Compliant, ExtLayout::Legacy128] {
                        units.push(Unit { cell: Cell { proto, v6, strategy, ports, privileged: true, ext }, te, layout });
                    }
                }
            }
        }
    }
    let counters = Mutex::new((0u64, 0u64, 0u64, std::collections::BTreeSet::<u8>::new(), 0u64));
    mc::par_for(units.len(), mc::workers(), |ui| {
        let u = &units[ui];
        let cell = u.cell;
        let v6 = cell.v6;
        let p = TraceParams { packet_size: 1024, initial_sequence: 33434, pattern: 0xa5, ..TraceParams::default() };
        let topo = drive::topo_linear(&cell, 3, Target::Silent);
        let net = drive::net_cfg(&cell, &p, topo, Menu::default());
        simnet::install(net, Chooser::new(&[], 0));
        let mut ch = drive::make_channel(&cell, &p).expect("MACHINERY: channel connect");
        ch.send_probe(drive::make_probe(&cell, &p, p.initial_sequence, 1, 0)).expect("MACHINERY: probe dispatch");
        let (sent_wire, from) = simnet::with(|w| (w.sent[0].wire.clone(), w.cfg.topo.hops[0].addr));
        let peer = v6.then(|| SocketAddr::new(from, 0));
        let outer = if v6 { 0 } else { 20 };
        let min_q = if v6 { 48 + 14 } else { 28 };
        let word = if v6 { 8 } else { 4 };
        let mut local = Findings::new();
        let (mut n_pos, mut n_neg, mut n_views) = (0u64, 0u64, 0u64);
        let mut len_values = std::collections::BTreeSet::<u8>::new();
        let mut nontrivial = 0u64;
        let ctx = format!("{} {} {:?}", cell.name(), if u.te { "TE" } else { "DU" }, u.layout);
        // quoted prefix lengths: every value that yields a distinct length attribute, plus the
        // unaligned neighbours
        let mut qs: Vec<usize> = vec![min_q, min_q + 1, 64, 100, 127, 128, 129];
        let mut q = 128;
        while q <= sent_wire.len() {
            qs.push(q);
            if tier == Tier::Thorough {
                qs.push(q - 1);
            }
            q += word;
        }
        qs.retain(|q| *q >= min_q && *q <= sent_wire.len());
        qs.sort_unstable();
        qs.dedup();
        // the last pseudo-list is "no extension structure at all" (a length attribute may be set
        // without any extension following, RFC 4884 section 4.5)
        let no_struct_li = lists.len();
        let empty: Vec<ExtObj> = vec![];
        for li in 0..=lists.len() {
            let no_struct = li == no_struct_li;
            let objs = if no_struct { &empty } else { &lists[li] };
            let ext_bytes = if no_struct { vec![] } else { wire::build_ext_structure(objs) };
            // with the full object alphabet only a stride of the quoted lengths is used in quick
            let stride = if tier == Tier::Quick && objs.len() == 2 { 7 } else { 1 };
            for (qi, &q) in qs.iter().enumerate() {
                if qi % stride != li % stride && !(q <= 129) {
                    continue;
                }
                let mut quoted = sent_wire[..q].to_vec();
                if v6 {
                    quoted[7] = 1;
                } else {
                    quoted[8] = 1;
                    wire::fix_ip4_cksum(&mut quoted);
                }
                let (len_field, body) = wire::rfc4884_body(v6, &quoted, &ext_bytes, u.layout);
                if outer + 8 + body.len() > 1024 {
                    continue;
                }
                let orig_field_len = body.len() - ext_bytes.len();
                let typ_code = match (v6, u.te) {
                    (false, true) => (wire::ICMP4_TIME_EXCEEDED, 0),
                    (false, false) => (wire::ICMP4_UNREACH, 3),
                    (true, true) => (wire::ICMP6_TIME_EXCEEDED, 0),
                    (true, false) => (wire::ICMP6_UNREACH, 4),
                };
                let pseudo = v6.then_some((from, cell.src()));
                let icmp = wire::build_icmp_error(v6, typ_code.0, typ_code.1, len_field, &body, pseudo);
                let dgram = simnet::with(|w| w.wrap_icmp(from, icmp.clone(), 0));
                len_values.insert(len_field);
                // (1) packet views: original datagram unchanged, extension exactly the structure
                n_views += 1;
                match mc::catch(|| view_split(v6, u.te, &icmp)) {
                    Err(pn) => add(&mut local, format!("{}@view", pn.key()), format!("[{ctx}] {}", pn.message), json!({"check":"C14","ctx":ctx,"icmp":icmp}), icmp.len()),
                    Ok(Err(e)) => add(&mut local, "view-construct".into(), format!("[{ctx}] {e}"), json!({"check":"C14","ctx":ctx,"icmp":icmp}), icmp.len()),
                    Ok(Ok((payload, ext))) => {
                        if payload != body[..orig_field_len] {
                            add(&mut local, format!("original-datagram-altered:{}", if v6 { "v6" } else { "v4" }), format!("[{ctx}] length attribute {len_field}, original datagram field {orig_field_len} octets, payload() returned {} octets (differs)", payload.len()), json!({"check":"C14","ctx":ctx,"icmp":icmp}), icmp.len());
                        }
                        if (no_struct && ext.is_some()) || (!no_struct && ext.as_deref() != Some(&ext_bytes[..])) {
                            add(&mut local, format!("extension-slice-wrong:{}", if v6 { "v6" } else { "v4" }), format!("[{ctx}] length attribute {len_field}: extension() returned {:?} octets, encoded {}", ext.as_ref().map(Vec::len), ext_bytes.len()), json!({"check":"C14","ctx":ctx,"icmp":icmp}), icmp.len());
                        }
                    }
                }
                // (2) the real receive path
                n_pos += 1;
                if !objs.is_empty() {
                    nontrivial += 1;
                }
                simnet::with(|w| w.inject.push_back((dgram.clone(), peer)));
                let r = mc::catch(|| ch.recv_probe());
                let replay = json!({"check":"C14","ctx":ctx,"datagram":dgram, "objects": format!("{objs:?}"), "quoted_octets": q});
                match r {
                    Err(pn) => add(&mut local, format!("{}@recv", pn.key()), format!("[{ctx}] {} at {}:{}", pn.message, pn.file, pn.line), replay, dgram.len()),
                    Ok(Err(e)) => add(&mut local, "recv-error-on-conformant-message".into(), format!("[{ctx}] q={q} objs={objs:?}: {e:?}"), replay, dgram.len()),
                    Ok(Ok(None)) => add(&mut local, "conformant-message-ignored".into(), format!("[{ctx}] q={q} objs={objs:?}: recv_probe returned None"), replay, dgram.len()),
                    Ok(Ok(Some(resp))) => {
                        let got = match (&resp, u.te) {
                            (Response::TimeExceeded(d, _, e), true) | (Response::DestinationUnreachable(d, _, e), false) => Some((d.addr, e.clone())),
                            _ => None,
                        };
                        match got {
                            None => add(&mut local, "wrong-response-kind".into(), format!("[{ctx}] {resp:?}"), replay, dgram.len()),
                            Some((addr, exts)) => {
                                if addr != from {
                                    add(&mut local, "wrong-responder".into(), format!("[{ctx}] {addr} vs {from}"), replay.clone(), dgram.len());
                                }
                                let want = if cell.ext && !no_struct { Some(expected_extensions(objs)) } else { None };
                                if exts != want {
                                    add(&mut local, format!("extensions-differ:{}", if v6 { "v6" } else { "v4" }), format!("[{ctx}] q={q} length attribute {len_field}: decoded {exts:?} but encoded {want:?}"), replay, dgram.len());
                                }
                            }
                        }
                    }
                }
                // (3) corruptions of a subset: every truncation point, every value of every length octet
                let corrupt = (li < 12 || li % 29 == 0) && (q == min_q || q == 128 || q == 129 || q == 132 || q == 136 || qi == qs.len() - 1 || q == 256 || q == 264);
                if corrupt {
                    let ext_off = 8 + orig_field_len;
                    let mut offsets = vec![if v6 { 4 } else { 5 }];
                    // object length words
                    let mut o = ext_off + 4;
                    for ob in objs {
                        offsets.push(o);
                        offsets.push(o + 1);
                        o += wire::build_ext_object(ob).len();
                    }
                    offsets.push(ext_off); // version nibble
                    // object boundaries inside the message (start of object k = bounds[k], end of the last = bounds[n])
                    let mut bounds = vec![ext_off + 4];
                    for ob in objs {
                        bounds.push(bounds.last().unwrap() + wire::build_ext_object(ob).len());
                    }
                    let mut cases: Vec<Vec<u8>> = vec![];
                    for t in 0..=icmp.len() {
                        cases.push(icmp[..t].to_vec());
                        // "for malformed structures parsing stops": a message cut inside the list of
                        // objects yields exactly the objects that are still whole, byte for byte
                        if t > ext_off + 4 && !objs.is_empty() {
                            if let Ok(Ok((_, Some(e)))) = mc::catch(|| view_split(v6, u.te, &icmp[..t])) {
                                let whole = bounds.iter().skip(1).filter(|b| **b <= t).count();
                                let got = mc::catch(|| {
                                    let Ok(xp) = trippy_packet::icmp_extension::extension_structure::ExtensionsPacket::new_view(&e) else { return None };
                                    let mut v: Vec<Vec<u8>> = vec![];
                                    for ob in xp.objects().take(64) {
                                        if let Ok(o) = trippy_packet::icmp_extension::extension_object::ExtensionObjectPacket::new_view(ob) {
                                            let mut b = vec![];
                                            b.extend_from_slice(&o.get_length().to_be_bytes());
                                            b.push(o.get_class_num().id());
                                            b.push(o.get_class_subtype().0);
                                            b.extend_from_slice(o.payload());
                                            v.push(b);
                                        }
                                    }
                                    Some(v)
                                });
                                if let Ok(Some(got)) = got {
                                    let want: Vec<Vec<u8>> = objs.iter().take(whole).map(wire::build_ext_object).collect();
                                    if got != want {
                                        add(&mut local, format!("truncated-structure-objects-differ:{}", if v6 { "v6" } else { "v4" }), format!("[{ctx}] message cut at octet {t} of {}: {} whole object(s) expected, parsed {} ({:02x?})", icmp.len(), want.len(), got.len(), got.last()), json!({"check":"C14","ctx":ctx,"icmp":icmp[..t].to_vec()}), t);
                                    }
                                }
                            }
                        }
                    }
                    for off in offsets {
                        if off >= icmp.len() {
                            continue;
                        }
                        for v in 0..=255u8 {
                            let mut c = icmp.clone();
                            c[off] = v;
                            cases.push(c);
                        }
                    }
                    for c in cases {
                        n_neg += 1;
                        // views: containment, non-overlap, termination
                        let ex = pkt::view_types();
                        let name = match (v6, u.te) {
                            (false, true) => "icmpv4::TimeExceededPacket",
                            (false, false) => "icmpv4::DestinationUnreachablePacket",
                            (true, true) => "icmpv6::TimeExceededPacket",
                            (true, false) => "icmpv6::DestinationUnreachablePacket",
                        };
                        let vt = ex.iter().find(|v| v.name == name).unwrap();
                        match mc::catch(|| (vt.exercise)(&c, false)) {
                            Err(pn) => add(&mut local, format!("{}@corrupt-view", pn.key()), format!("[{ctx}] {}", pn.message), json!({"check":"C14","ctx":ctx,"icmp":c}), c.len()),
                            Ok(Err(msg)) => add(&mut local, format!("{msg}@{name}"), format!("[{ctx}]"), json!({"check":"C14","ctx":ctx,"icmp":c}), c.len()),
                            Ok(Ok(_)) => {}
                        }
                        // extension structure iteration terminates
                        if let Ok(Ok((_, Some(e)))) = mc::catch(|| view_split(v6, u.te, &c)) {
                            let exs = ex.iter().find(|v| v.name == "ExtensionsPacket").unwrap();
                            match mc::catch(|| (exs.exercise)(&e, false)) {
                                Err(pn) => add(&mut local, format!("{}@corrupt-ext", pn.key()), format!("[{ctx}] {}", pn.message), json!({"check":"C14","ctx":ctx,"icmp":c}), c.len()),
                                Ok(Err(msg)) => add(&mut local, format!("{msg}@ExtensionsPacket"), format!("[{ctx}]"), json!({"check":"C14","ctx":ctx,"icmp":c}), c.len()),
                                Ok(Ok(_)) => {}
                            }
                        }
                        let d = simnet::with(|w| {
                            let d = w.wrap_icmp(from, c.clone(), 0);
                            w.inject.push_back((d.clone(), peer));
                            d
                        });
                        if let Err(pn) = mc::catch(|| ch.recv_probe()) {
                            simnet::with(|w| w.inject.clear());
                            add(&mut local, format!("{}@corrupt-recv", pn.key()), format!("[{ctx}] {} at {}:{}", pn.message, pn.file, pn.line), json!({"check":"C14","ctx":ctx,"datagram":d}), d.len());
                        }
                    }
                }
            }
        }
        drop(ch);
        let _ = simnet::take();
        let mut c = counters.lock().unwrap();
        c.0 += n_pos;
        c.1 += n_neg;
        c.2 += n_views;
        c.3.extend(len_values);
        c.4 += nontrivial;
        drop(c);
        let mut g = findings.lock().unwrap();
        for (k, f) in local {
            match g.get_mut(&k) {
                Some(o) => {
                    o.count += f.count;
                    if f.weight < o.weight {
                        let c = o.count;
                        *o = f;
                        o.count = c;
                    }
                }
                None => {
                    g.insert(k, f);
                }
            }
        }
    });
    let c = counters.into_inner().unwrap();
    rep.merge_findings(findings.into_inner().unwrap());
    rep.set("evaluations", json!(c.0 + c.1 + c.2));
    rep.set("distinct_nontrivial", json!(c.4 + c.1));
    rep.set("conformant_messages_through_recv_probe", json!(c.0));
    rep.set("corrupted_messages", json!(c.1));
    rep.set("object_lists", json!(lists.len()));
    rep.set("units", json!(units.len()));
    rep.observe("distinct_rfc4884_length_attribute_values", json!(c.3.len()));
    rep.set("rule", json!("{v4,v6} x {TimeExceeded, DestinationUnreachable} x parse mode {on,off} x protocol {icmp, udp/dublin, tcp} x layout {RFC 4884 compliant, legacy 128} x every quoted-prefix length giving a distinct length attribute (plus unaligned neighbours) x all object lists of length <= 3 (quick) / 4 (thorough) (+ no extension structure at all) over 11 object shapes (MPLS depth 1-3 with boundary label/EXP/S/TTL, incl. a last entry without the S bit and an S bit before the end of the object; an empty stack - RFC 4950 requires at least one entry - belongs to the corruptions, classes 2,3,255, sizes 4/5/7/8/12); oracle: views return the original-datagram field and the extension structure byte-exactly, recv_probe reports exactly the encoded objects in order. Corruptions of a subset: every truncation point and all 256 values of the length attribute, of every object-length octet and of the version octet: no panic, iteration under ceiling, payload/extension inside the message and disjoint; a message cut inside the list of objects yields exactly the objects that are still whole. Non-trivial = message carries >= 1 object, or is a corruption"));
    rep.sample(json!({"unit": "udp/v6/dublin TE compliant", "quoted_octets": 136, "objects": "[Mpls(depth 2), Other(class 2)]"}));
    rep.assumptions = vec!["MPLS stacks of the conformant half have >= 1 member and S=1 exactly on the last (RFC 4950); padding is part of the original-datagram field (DESIGN.md 5.11)".into()];
    rep.finish()
}
