//! C01 — every reported probe outcome matches what the network actually did.
//! E1 (deviation-bounded exhaustive exploration) over E2 (simulated network), wire level.

use crate::drive::{self, all_cells, Cell, RunOutcome, TraceParams, TOPOLOGIES};
use crate::mc::{self, Chooser};
use crate::report::{Args, Finding, Report, Tier};
use crate::simnet::{AttemptOutcome, Menu, RespKind, World};
use crate::vclock;
use serde_json::{json, Value};
use std::collections::{BTreeMap, HashSet};
use std::sync::Mutex;
use trippy_core::verif::IcmpPacketCode;
use trippy_core::{IcmpPacketType, ProbeStatus};

pub const ASSUME: &str = "simulated socket layer behaves like a kernel (DESIGN.md 5.12); harness wire codec self-tested against captures from the repository; virtual clock via clock_gettime interposition (self-tested at start-up)";

pub fn expected_icmp_type(kind: RespKind) -> IcmpPacketType {
    match kind {
        RespKind::TimeExceeded(c) => IcmpPacketType::TimeExceeded(IcmpPacketCode(c)),
        RespKind::Unreachable(c) => IcmpPacketType::Unreachable(IcmpPacketCode(c)),
        RespKind::EchoReply => IcmpPacketType::EchoReply(IcmpPacketCode(0)),
        RespKind::TcpSynAck | RespKind::TcpRst => IcmpPacketType::NotApplicable,
        RespKind::TcpHostUnreach => IcmpPacketType::TimeExceeded(IcmpPacketCode(1)),
    }
}

/// What a slot must look like, derived from the ground-truth log only.
#[derive(Debug, Clone, PartialEq)]
pub enum Expect {
    Complete {
        ttl: u8,
        seq: Option<u16>,
        sent_ns: u64,
        recv_ns: u64,
        host: std::net::IpAddr,
        icmp: IcmpPacketType,
    },
    Awaited {
        ttl: u8,
        seq: Option<u16>,
        sent_ns: u64,
    },
    /// A send fault: the statement allows Failed (transient) or Skipped (address in use).
    Faulted { errno: i32 },
}

/// Index of the ground-truth log (built once per execution; linear in the log size).
pub struct GtIndex {
    /// per sent datagram: the first genuine delivery handed over in the datagram's own round
    first_delivery: Vec<Option<usize>>,
    attempts_by_round: Vec<Vec<usize>>,
}

impl GtIndex {
    pub fn build(w: &World) -> Self {
        let mut first_delivery: Vec<Option<usize>> = vec![None; w.sent.len()];
        for (di, d) in w.deliveries.iter().enumerate() {
            if d.genuine && w.sent[d.for_sent].round == d.round {
                let slot = &mut first_delivery[d.for_sent];
                match slot {
                    Some(old) if w.deliveries[*old].time_ns <= d.time_ns => {}
                    _ => *slot = Some(di),
                }
            }
        }
        let rounds = w.attempts.iter().map(|a| a.round + 1).max().unwrap_or(0);
        let mut attempts_by_round = vec![vec![]; rounds];
        for (i, a) in w.attempts.iter().enumerate() {
            attempts_by_round[a.round].push(i);
        }
        Self { first_delivery, attempts_by_round }
    }
}

pub fn expectations(w: &World, round: usize) -> Vec<Expect> {
    expectations_ix(w, &GtIndex::build(w), round)
}

pub fn expectations_ix(w: &World, ix: &GtIndex, round: usize) -> Vec<Expect> {
    let mut out = vec![];
    let empty = vec![];
    for &ai in ix.attempts_by_round.get(round).unwrap_or(&empty) {
        let a = &w.attempts[ai];
        match &a.outcome {
            AttemptOutcome::Sent(idx) => {
                let s = &w.sent[*idx];
                match ix.first_delivery[*idx].map(|di| &w.deliveries[di]) {
                    Some(d) => {
                        let r = &w.resps[d.resp];
                        out.push(Expect::Complete {
                            ttl: s.ttl,
                            seq: s.seq,
                            sent_ns: s.time_ns,
                            recv_ns: d.time_ns,
                            host: r.from,
                            icmp: expected_icmp_type(r.kind),
                        });
                    }
                    None => out.push(Expect::Awaited {
                        ttl: s.ttl,
                        seq: s.seq,
                        sent_ns: s.time_ns,
                    }),
                }
            }
            AttemptOutcome::Fault { errno, .. } => out.push(Expect::Faulted { errno: *errno }),
            AttemptOutcome::Pending => out.push(Expect::Faulted { errno: 0 }),
        }
    }
    out
}

fn status_name(p: &ProbeStatus) -> &'static str {
    match p {
        ProbeStatus::NotSent => "NotSent",
        ProbeStatus::Skipped => "Skipped",
        ProbeStatus::Failed(_) => "Failed",
        ProbeStatus::Awaited(_) => "Awaited",
        ProbeStatus::Complete(_) => "Complete",
    }
}

/// Compare one published round with the ground truth.  Returns (key, detail) per discrepancy.
pub fn check_round(w: &World, round: usize) -> Vec<(String, String)> {
    check_round_ix(w, &GtIndex::build(w), round)
}

pub fn check_round_ix(w: &World, ix: &GtIndex, round: usize) -> Vec<(String, String)> {
    let mut bad = vec![];
    let p = &w.publishes[round];
    let exp = expectations_ix(w, ix, round);
    if p.probes.len() != exp.len() {
        bad.push((
            "slot-count".to_string(),
            format!(
                "round {round}: {} slots published but {} datagrams/attempts on the wire",
                p.probes.len(),
                exp.len()
            ),
        ));
        return bad;
    }
    for (i, (slot, e)) in p.probes.iter().zip(&exp).enumerate() {
        match (slot, e) {
            (ProbeStatus::Complete(c), Expect::Complete { ttl, seq, sent_ns, recv_ns, host, icmp }) => {
                if c.ttl.0 != *ttl {
                    bad.push(("complete-ttl".into(), format!("round {round} slot {i}: ttl {} but wire ttl {ttl}", c.ttl.0)));
                }
                if Some(c.sequence.0) != *seq {
                    bad.push(("complete-seq".into(), format!("round {round} slot {i}: seq {} but wire seq {seq:?}", c.sequence.0)));
                }
                if c.host != *host {
                    bad.push(("complete-host".into(), format!("round {round} slot {i}: host {} but responder {host}", c.host)));
                }
                if c.icmp_packet_type != *icmp {
                    bad.push(("complete-kind".into(), format!("round {round} slot {i}: kind {:?} but response {icmp:?}", c.icmp_packet_type)));
                }
                let (s, r) = (vclock::to_ns(c.sent), vclock::to_ns(c.received));
                if s != *sent_ns || r != *recv_ns {
                    bad.push((
                        "complete-rtt".into(),
                        format!("round {round} slot {i}: sent/received {s}/{r} ns but ground truth {sent_ns}/{recv_ns} ns"),
                    ));
                }
                if c.round.0 != round {
                    bad.push(("complete-round".into(), format!("round {round} slot {i}: round id {}", c.round.0)));
                }
            }
            (ProbeStatus::Awaited(a), Expect::Awaited { ttl, seq, sent_ns }) => {
                if a.ttl.0 != *ttl || Some(a.sequence.0) != *seq || vclock::to_ns(a.sent) != *sent_ns || a.round.0 != round {
                    bad.push((
                        "awaited-fields".into(),
                        format!("round {round} slot {i}: awaited {a:?} but wire ttl {ttl} seq {seq:?} sent {sent_ns}"),
                    ));
                }
            }
            (ProbeStatus::Failed(_) | ProbeStatus::Skipped, Expect::Faulted { .. }) => {}
            (slot, e) => {
                let key = format!(
                    "status-mismatch:{}-vs-{}",
                    status_name(slot),
                    match e {
                        Expect::Complete { .. } => "genuine-response",
                        Expect::Awaited { .. } => "no-response",
                        Expect::Faulted { .. } => "send-fault",
                    }
                );
                bad.push((key, format!("round {round} slot {i}: reported {slot:?} but ground truth {e:?}")));
            }
        }
    }
    bad
}

/// Snapshot totals must be the sums of the published outcomes.
pub fn check_totals(w: &World, o: &RunOutcome) -> Vec<(String, String)> {
    let mut bad = vec![];
    let Some(st) = &o.snapshot else {
        return bad;
    };
    let mut sent = BTreeMap::<u8, usize>::new();
    let mut recv = BTreeMap::<u8, usize>::new();
    let mut failed = BTreeMap::<u8, usize>::new();
    let mut addrs = BTreeMap::<(u8, std::net::IpAddr), usize>::new();
    for p in &w.publishes {
        for s in &p.probes {
            match s {
                ProbeStatus::Complete(c) => {
                    *sent.entry(c.ttl.0).or_default() += 1;
                    *recv.entry(c.ttl.0).or_default() += 1;
                    *addrs.entry((c.ttl.0, c.host)).or_default() += 1;
                }
                ProbeStatus::Awaited(a) => *sent.entry(a.ttl.0).or_default() += 1,
                ProbeStatus::Failed(f) => {
                    *sent.entry(f.ttl.0).or_default() += 1;
                    *failed.entry(f.ttl.0).or_default() += 1;
                }
                _ => {}
            }
        }
    }
    let hops = match mc::catch(|| st.hops().to_vec()) {
        Ok(h) => h,
        Err(p) => {
            bad.push((format!("snapshot-{}", p.key()), p.message));
            return bad;
        }
    };
    for h in &hops {
        let t = h.ttl();
        if t == 0 {
            // a hop inside the exposed range that was never probed keeps ttl 0; nothing to sum
            continue;
        }
        let (es, er, ef) = (
            sent.get(&t).copied().unwrap_or(0),
            recv.get(&t).copied().unwrap_or(0),
            failed.get(&t).copied().unwrap_or(0),
        );
        if h.total_sent() != es || h.total_recv() != er || h.total_failed() != ef {
            bad.push((
                "totals".into(),
                format!(
                    "hop ttl {t}: snapshot sent/recv/failed {}/{}/{} but sums of published outcomes {es}/{er}/{ef}",
                    h.total_sent(),
                    h.total_recv(),
                    h.total_failed()
                ),
            ));
        }
        for (a, n) in h.addrs_with_counts() {
            if addrs.get(&(t, *a)).copied().unwrap_or(0) != *n {
                bad.push(("addr-totals".into(), format!("hop ttl {t}: address {a} count {n} differs from published outcomes")));
            }
        }
        let asum: usize = h.addrs_with_counts().map(|(_, n)| *n).sum();
        if asum != h.total_recv() {
            bad.push(("addr-sum".into(), format!("hop ttl {t}: address counts sum {asum} != recv {}", h.total_recv())));
        }
    }
    bad
}

#[derive(Debug, Clone)]
pub struct Task {
    pub cell: Cell,
    pub topo: &'static str,
    pub params: TraceParams,
    pub bound: usize,
}

pub fn menu() -> Menu {
    Menu {
        delay: true,
        reorder: true,
        dup: true,
        loss: true,
        ..Menu::default()
    }
}

pub fn params_json(p: &TraceParams) -> Value {
    json!({
        "first_ttl": p.first_ttl, "max_ttl": p.max_ttl, "max_inflight": p.max_inflight, "rounds": p.rounds,
        "min_round_ns": p.min_round.as_nanos() as u64, "max_round_ns": p.max_round.as_nanos() as u64,
        "grace_ns": p.grace.as_nanos() as u64, "read_timeout_ns": p.read_timeout.as_nanos() as u64,
        "tcp_connect_timeout_ns": p.tcp_connect_timeout.as_nanos() as u64,
        "packet_size": p.packet_size, "tos": p.tos, "pattern": p.pattern,
        "initial_sequence": p.initial_sequence, "trace_id": p.trace_id, "max_flows": p.max_flows, "max_samples": p.max_samples,
    })
}

pub fn params_from_json(v: &Value) -> TraceParams {
    let u = |k: &str| v[k].as_u64().unwrap_or_else(|| panic!("MACHINERY: replay param {k}"));
    // durations are stored in nanoseconds (older artefacts: milliseconds)
    let dur = |k: &str| match v.get(format!("{k}_ns")).and_then(Value::as_u64) {
        Some(ns) => std::time::Duration::from_nanos(ns),
        None => std::time::Duration::from_millis(u(&format!("{k}_ms"))),
    };
    TraceParams {
        first_ttl: u("first_ttl") as u8,
        max_ttl: u("max_ttl") as u8,
        max_inflight: u("max_inflight") as u8,
        rounds: u("rounds") as usize,
        min_round: dur("min_round"),
        max_round: dur("max_round"),
        grace: dur("grace"),
        read_timeout: dur("read_timeout"),
        tcp_connect_timeout: dur("tcp_connect_timeout"),
        packet_size: u("packet_size") as u16,
        tos: u("tos") as u8,
        pattern: u("pattern") as u8,
        initial_sequence: u("initial_sequence") as u16,
        trace_id: u("trace_id") as u16,
        max_flows: u("max_flows") as usize,
        max_samples: u("max_samples") as usize,
    }
}

pub fn cell_index(c: &Cell) -> usize {
    all_cells().iter().position(|x| x == c).expect("MACHINERY: cell not in catalogue")
}

pub fn replay_json(check: &str, t: &Task, choices: &[u16]) -> Value {
    json!({
        "check": check, "cell": t.cell.name(), "cell_index": cell_index(&t.cell), "topo": t.topo,
        "params": params_json(&t.params), "choices": choices,
    })
}

/// Digest of the published rounds (statuses, hosts, ttls) — the observation of an execution.
pub fn observation_digest(w: &World) -> u64 {
    let mut v: Vec<(usize, u8, u8, Option<std::net::IpAddr>, u64, u64)> = vec![];
    for (r, p) in w.publishes.iter().enumerate() {
        for s in &p.probes {
            match s {
                ProbeStatus::Complete(c) => v.push((r, 4, c.ttl.0, Some(c.host), vclock::to_ns(c.sent), vclock::to_ns(c.received))),
                ProbeStatus::Awaited(a) => v.push((r, 3, a.ttl.0, None, vclock::to_ns(a.sent), 0)),
                ProbeStatus::Failed(f) => v.push((r, 2, f.ttl.0, None, 0, 0)),
                ProbeStatus::Skipped => v.push((r, 1, 0, None, 0, 0)),
                ProbeStatus::NotSent => v.push((r, 0, 0, None, 0, 0)),
            }
        }
        v.push((r, 9, p.largest_ttl, None, p.time_ns, u64::from(p.target_found)));
    }
    mc::hash64(&v)
}

/// The environment menu of a task: scheduling deviations, and on the `L3-flaky` path also the
/// socket failures the cell survives (a failed send is part of the statement: "or failed").
pub fn menu_for(t: &Task) -> Menu {
    if t.topo == "L3-flaky" {
        let f = crate::c09::transient_faults(&t.cell);
        return Menu { delay: true, loss: true, ..f };
    }
    menu()
}

pub fn run_once(t: &Task, ch: Chooser) -> RunOutcome {
    run_once_menu(t, menu_for(t), ch)
}

pub fn run_once_menu(t: &Task, menu: Menu, ch: Chooser) -> RunOutcome {
    let topo = drive::topo_named(&t.cell, t.topo);
    let mut net = drive::net_cfg(&t.cell, &t.params, topo, menu);
    // a path that changes does so before the last round (round 2 in runs of five rounds and more)
    net.reroute = drive::reroute_named(&t.cell, t.topo).map(|(k, alt)| (k.min(t.params.rounds.saturating_sub(1)), alt));
    drive::run_trace(&t.cell, &t.params, net, ch)
}

pub fn judge(t: &Task, o: &RunOutcome) -> Vec<(String, String)> {
    let mut bad = vec![];
    if let Some(p) = &o.panic {
        bad.push((p.key(), format!("{} at {}:{}", p.message, p.file, p.line)));
        return bad;
    }
    if let Some(e) = &o.build_error {
        bad.push(("build-rejected".into(), e.clone()));
        return bad;
    }
    if let Err(e) = &o.result {
        bad.push(("run-error".into(), e.clone()));
    } else if o.world.publishes.len() != t.params.rounds {
        bad.push(("round-count".into(), format!("{} rounds published, expected {}", o.world.publishes.len(), t.params.rounds)));
    }
    let ix = GtIndex::build(&o.world);
    for r in 0..o.world.publishes.len() {
        bad.extend(check_round_ix(&o.world, &ix, r));
    }
    bad.extend(check_totals(&o.world, o));
    bad
}

#[derive(Default)]
struct Agg {
    stats: mc::ExploreStats,
    findings: BTreeMap<String, Finding>,
    digests: u64,
    awaited_runs: u64,
    reorder_runs: u64,
    dup_runs: u64,
    loss_runs: u64,
    faulted_runs: u64,
    rerouted_runs: u64,
    delay_runs: u64,
    late_deliveries: u64,
    determinism_replays: u64,
    samples: Vec<Value>,
}

/// TCP with a connect timeout of the order of the probe spacing: connection attempts towards
/// silent / ICMP-answering hops expire in the very polls in which younger attempts complete.
pub fn tcp_expiry_tasks(bound: usize) -> Vec<Task> {
    let mut tasks = vec![];
    for cell in all_cells().into_iter().filter(|c| c.proto == crate::simnet::Proto::Tcp) {
        for topo in ["L2", "L3", "silent-mid", "dup"] {
            for ms in [5u64, 15, 25, 35] {
                let mut p = TraceParams::default();
                p.tcp_connect_timeout = std::time::Duration::from_millis(ms);
                p.packet_size = if cell.v6 { 96 } else { 84 };
                tasks.push(Task { cell, topo, params: p, bound });
            }
        }
    }
    tasks
}

pub fn run(args: &Args) -> i32 {
    if let Some(path) = &args.replay {
        return replay(path);
    }
    let tier = args.tier;
    let mut rep = Report::new("C01", tier, "model_checking");
    let mut tasks = vec![];
    let (d_all, d_base, rounds) = match tier {
        Tier::Quick => (3, 3, 2),
        Tier::Thorough => (5, 6, 2),
    };
    for cell in all_cells() {
        for topo in TOPOLOGIES {
            for first_ttl in [1u8, 2] {
                let mut p = TraceParams::default();
                p.first_ttl = first_ttl;
                p.rounds = rounds;
                p.packet_size = if cell.v6 { 96 } else { 84 };
                let base = cell.privileged && !cell.ext && matches!(cell.ports, drive::Ports::None | drive::Ports::FixedSrc);
                let bound = if base && first_ttl == 1 { d_base } else { d_all };
                tasks.push(Task { cell, topo, params: p, bound });
            }
        }
    }
    tasks.extend(tcp_expiry_tasks(d_all));
    // short rounds (one receive wait long): a single delayed response already lands in the next
    // round, where it must not be taken for an answer to that round's probe
    for cell in all_cells().into_iter().filter(|c| c.privileged && !c.ext) {
        for topo in ["L3", "silent-target"] {
            let mut p = TraceParams::default();
            p.rounds = 3;
            p.max_ttl = 4;
            p.min_round = std::time::Duration::from_millis(12);
            p.max_round = std::time::Duration::from_millis(12);
            p.grace = std::time::Duration::from_millis(1);
            p.packet_size = if cell.v6 { 96 } else { 84 };
            tasks.push(Task { cell, topo, params: p, bound: d_all.min(3) });
        }
    }
    // socket failures the configuration survives (the slot is Failed, or Skipped and re-issued)
    // interleaved with delays and losses; and a path that changes between the two rounds
    for cell in all_cells().into_iter().filter(|c| c.privileged && !c.ext) {
        for topo in ["L3-flaky", "grow-2-3", "shrink-4-2"] {
            let mut p = TraceParams::default();
            p.rounds = rounds;
            p.packet_size = if cell.v6 { 96 } else { 84 };
            tasks.push(Task { cell, topo, params: p, bound: if topo == "L3-flaky" { d_all.min(3) } else { d_all.min(3) - 1 } });
        }
    }
    // long runs: 40 rounds on a 3-hop path (sequence offsets up to 120), and 40 rounds of 16 probes
    // towards a silent target from the highest initial sequence (the numbering restarts once)
    for cell in drive::base_cells() {
        for (topo, max_ttl, init) in [("L3", 8u8, 33434u16), ("silent-target", 16, 64511)] {
            let mut p = TraceParams::default();
            p.rounds = 40;
            p.max_ttl = max_ttl;
            p.initial_sequence = init;
            p.packet_size = if cell.v6 { 96 } else { 84 };
            tasks.push(Task { cell, topo, params: p, bound: if tier == Tier::Thorough { 2 } else { 1 } });
        }
    }
    if tier == Tier::Thorough {
        // three rounds (carried-over target distance) on the base cells
        for cell in drive::base_cells() {
            for topo in ["L2", "L3", "silent-mid", "ecmp"] {
                let mut p = TraceParams::default();
                p.rounds = 3;
                p.packet_size = if cell.v6 { 96 } else { 84 };
                tasks.push(Task { cell, topo, params: p, bound: 3 });
            }
        }
    }
    let agg = Mutex::new(Agg::default());
    mc::par_for(tasks.len(), mc::workers(), |ti| {
        let t = &tasks[ti];
        let max_points = if t.params.rounds >= 40 { 40_000 } else { 400 };
        let mut local = Agg::default();
        let mut digests: HashSet<u64> = HashSet::new();
        let mut first = true;
        let stats = mc::explore(t.bound, max_points, &mut |ch| {
            let prefix_choices;
            let o = {
                let c = std::mem::replace(ch, Chooser::new(&[], 0));
                let o = run_once(t, c);
                prefix_choices = o.world.chooser.clone();
                o
            };
            *ch = prefix_choices;
            let bad = judge(t, &o);
            let dig = observation_digest(&o.world);
            digests.insert(dig);
            let w = &o.world;
            local.delay_runs += u64::from(w.n_delay > 0);
            local.reorder_runs += u64::from(w.n_reorder > 0);
            local.dup_runs += u64::from(w.n_dup > 0);
            local.loss_runs += u64::from(w.n_loss > 0);
            local.faulted_runs += u64::from(w.attempts.iter().any(|a| matches!(a.outcome, crate::simnet::AttemptOutcome::Fault { .. })));
            local.rerouted_runs += u64::from(drive::reroute_named(&t.cell, t.topo).is_some());
            local.awaited_runs += u64::from(
                w.publishes.iter().any(|p| p.probes.iter().any(|s| matches!(s, ProbeStatus::Awaited(_)))),
            );
            local.late_deliveries += w
                .deliveries
                .iter()
                .filter(|d| d.genuine && w.sent[d.for_sent].round != d.round)
                .count() as u64;
            if first || !bad.is_empty() {
                // determinism: the same choice list must give the same observation
                let o2 = run_once(t, Chooser::new(&ch.choices, max_points));
                assert!(
                    observation_digest(&o2.world) == dig && o2.world.chooser.choices == ch.choices,
                    "MACHINERY: nondeterministic replay in task {}",
                    t.cell.name()
                );
                local.determinism_replays += 1;
                if first && local.samples.is_empty() && ti % 97 == 0 {
                    local.samples.push(json!({
                        "cell": t.cell.name(), "topo": t.topo, "choices": ch.choices,
                        "rounds": w.publishes.iter().map(|p| p.probes.iter().map(status_name).collect::<Vec<_>>()).collect::<Vec<_>>(),
                    }));
                }
                first = false;
            }
            for (key, detail) in bad {
                let key = format!("{key}@{}", t.cell.name().split('/').take(3).collect::<Vec<_>>().join("/"));
                let f = Finding {
                    key: key.clone(),
                    detail: format!("[{} topo={} first_ttl={}] {detail}", t.cell.name(), t.topo, t.params.first_ttl),
                    replay: replay_json("C01", t, &ch.choices),
                    weight: (ch.deviations(), ch.choices.len()),
                    count: 1,
                };
                match local.findings.get_mut(&key) {
                    Some(old) => {
                        old.count += 1;
                        if f.weight < old.weight {
                            let c = old.count;
                            *old = f;
                            old.count = c;
                        }
                    }
                    None => {
                        local.findings.insert(key, f);
                    }
                }
            }
            local.findings.len() < 50
        });
        local.stats = stats;
        local.digests = digests.len() as u64;
        let mut a = agg.lock().unwrap();
        a.stats.merge(&local.stats);
        a.digests += local.digests;
        a.awaited_runs += local.awaited_runs;
        a.reorder_runs += local.reorder_runs;
        a.dup_runs += local.dup_runs;
        a.loss_runs += local.loss_runs;
        a.faulted_runs += local.faulted_runs;
        a.rerouted_runs += local.rerouted_runs;
        a.delay_runs += local.delay_runs;
        a.late_deliveries += local.late_deliveries;
        a.determinism_replays += local.determinism_replays;
        if a.samples.len() < 4 {
            a.samples.extend(local.samples);
        }
        for (_, f) in local.findings {
            match a.findings.get_mut(&f.key) {
                Some(old) => {
                    old.count += f.count;
                    if f.weight < old.weight {
                        let c = old.count;
                        *old = f;
                        old.count = c;
                    }
                }
                None => {
                    a.findings.insert(f.key.clone(), f);
                }
            }
        }
    });
    let a = agg.into_inner().unwrap();
    rep.merge_findings(a.findings);
    rep.set("states", json!(a.stats.states));
    rep.set("transitions", json!(a.stats.transitions));
    rep.set("traces_validated_against_impl", json!(a.stats.executions));
    rep.set("evaluations", json!(a.stats.executions));
    rep.set("distinct_nontrivial", json!(a.digests));
    rep.set("executions_by_deviations", json!(a.stats.executions_by_dev));
    rep.set("tasks", json!(tasks.len()));
    rep.set("bound_completed", json!({"all_cells": d_all, "base_cells": d_base}));
    rep.set("max_choice_points_in_one_execution", json!(a.stats.max_points));
    rep.set("horizon_hits", json!(a.stats.horizon_hits));
    rep.set("determinism_replays", json!(a.determinism_replays));
    rep.set("rule", json!(format!(
        "56 cells x {} topologies x first_ttl{{1,2}}, {} rounds: ALL executions of the real Builder->Tracer->Strategy->Channel<SimSocket>->codec->State stack with <= d deviations (delay, reorder, duplicate, loss) from the ideal network, d={} (all) / {} (base cells); states = nodes of the choice tree; distinct_nontrivial = distinct published-round digests summed over tasks",
        TOPOLOGIES.len(), rounds, d_all, d_base) + "; + every privileged cell x {L3, silent-target} with rounds one receive wait long (3 rounds, max_ttl 4: late responses land in the next round); + every tcp cell x {L2,L3,silent-mid,dup} x tcp connect timeout {5,15,25,35} ms (connection attempts expiring in the polls in which younger ones complete); + every privileged cell x {L3 with the socket failures the cell survives offered at every send/bind/connect + delay + loss; path 2->3 hops and 4->2 hops changing between the rounds}; + 14 base cells x {3-hop path, 40 rounds; silent target, 16 probes per round, 40 rounds from initial sequence 64511 across the restart of the numbering}, <= 1 (2 thorough) deviations"));
    rep.observe("executions_with_awaited_probe", json!(a.awaited_runs));
    rep.observe("executions_with_reorder", json!(a.reorder_runs));
    rep.observe("executions_with_duplicate", json!(a.dup_runs));
    rep.observe("executions_with_loss", json!(a.loss_runs));
    rep.observe("executions_with_a_failed_or_skipped_send", json!(a.faulted_runs));
    rep.observe("executions_over_a_path_that_changes", json!(a.rerouted_runs));
    rep.observe("executions_with_delay", json!(a.delay_runs));
    rep.observe("late_deliveries_crossing_a_round_boundary", json!(a.late_deliveries));
    for s in a.samples {
        rep.sample(s);
    }
    rep.assumptions = vec![
        "simulated socket layer behaves like a kernel (DESIGN.md 5.12)".into(),
        "harness wire codec (RFC 791/8200/792/4443/768/9293/1071/4884/4950), self-tested against captures from the repository".into(),
        "virtual clock via clock_gettime interposition (self-tested at start-up)".into(),
    ];
    rep.finish()
}

/// Load a real-execution replay artefact: the task and the recorded choices.
pub fn load_task(path: &str) -> (Task, Vec<u16>) {
    let s = std::fs::read_to_string(path).expect("MACHINERY: cannot read replay file");
    let v: Value = serde_json::from_str(&s).expect("MACHINERY: replay file is not JSON");
    let r = if v.get("replay").is_some() { &v["replay"] } else { &v };
    let cell = all_cells()[r["cell_index"].as_u64().expect("cell_index") as usize];
    let topo_name = r["topo"].as_str().expect("topo").to_string();
    let topo: &'static str = drive::TOPO_NAMES
        .iter()
        .find(|t| **t == topo_name)
        .copied()
        .expect("MACHINERY: unknown topo in replay");
    let params = params_from_json(&r["params"]);
    let choices: Vec<u16> = r["choices"].as_array().expect("choices").iter().map(|c| c.as_u64().unwrap() as u16).collect();
    (Task { cell, topo, params, bound: 0 }, choices)
}

pub fn print_trace(o: &RunOutcome) {
    println!("result: {:?}", o.result);
    for s in &o.world.sent {
        println!("  sent #{} t={}ns round={} ttl={} seq={:?}", s.idx, s.time_ns, s.round, s.ttl, s.seq);
    }
    for d in &o.world.deliveries {
        println!("  delivered resp#{} for sent#{} t={}ns round={} genuine={} from={}", d.resp, d.for_sent, d.time_ns, d.round, d.genuine, o.world.resps[d.resp].from);
    }
    for (i, p) in o.world.publishes.iter().enumerate() {
        println!("  publish round {i} t={}ns largest_ttl={} target_found={}", p.time_ns, p.largest_ttl, p.target_found);
        for s in &p.probes {
            println!("    {s:?}");
        }
    }
}

pub fn replay(path: &str) -> i32 {
    replay_as(path, "C01")
}

pub fn replay_as(path: &str, prop: &str) -> i32 {
    let (t, choices) = load_task(path);
    replay_task(&t, &choices, path, prop, menu_for(&t))
}

pub fn replay_as_menu(path: &str, prop: &str, menu: Menu) -> i32 {
    let (t, choices) = load_task(path);
    replay_task(&t, &choices, path, prop, menu)
}

fn replay_task(t: &Task, choices: &[u16], path: &str, prop: &str, menu: Menu) -> i32 {
    let t = t.clone();
    let o = run_once_menu(&t, menu, Chooser::new(choices, 100_000));
    println!("replay {prop}: cell={} topo={} tcp_connect_timeout={:?} choices={:?}", t.cell.name(), t.topo, t.params.tcp_connect_timeout, choices);
    print_trace(&o);
    let bad = judge(&t, &o);
    for (k, d) in &bad {
        println!("DISCREPANCY {k}: {d}");
    }
    if bad.is_empty() {
        println!("replay: property held");
        0
    } else {
        println!("VIOLATION property={prop} replay={path}");
        1
    }
}
