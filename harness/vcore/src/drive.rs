//! Configuration cells and the driver that runs the real tracer over the simulated network.

use crate::mc::{self, Chooser, PanicInfo};
use crate::simnet::{self, Hop, HopKind, Menu, NetCfg, Proto, Quote, SeqLoc, SimSocket, Target, Topo, World, MS};
use std::net::{IpAddr, Ipv4Addr, Ipv6Addr};
use std::time::Duration;
use trippy_core::{
    Builder, IcmpExtensionParseMode, MultipathStrategy, PortDirection, PrivilegeMode, Protocol, State, Tracer,
};

pub const FIXED_SPORT: u16 = 5000;
pub const FIXED_DPORT: u16 = 3500;

#[derive(Debug, Clone, Copy, PartialEq, Eq, Hash)]
pub enum Ports {
    None,
    FixedSrc,
    FixedDest,
    FixedBoth,
}

/// A builder-accepted configuration cell.
#[derive(Debug, Clone, Copy, PartialEq, Eq)]
pub struct Cell {
    pub proto: Proto,
    pub v6: bool,
    pub strategy: MultipathStrategy,
    pub ports: Ports,
    pub privileged: bool,
    pub ext: bool,
}

impl Cell {
    pub fn name(&self) -> String {
        format!(
            "{}/{}/{}/{}/{}/{}",
            match self.proto {
                Proto::Icmp => "icmp",
                Proto::Udp => "udp",
                Proto::Tcp => "tcp",
            },
            if self.v6 { "v6" } else { "v4" },
            match self.strategy {
                MultipathStrategy::Classic => "classic",
                MultipathStrategy::Paris => "paris",
                MultipathStrategy::Dublin => "dublin",
            },
            match self.ports {
                Ports::None => "noports",
                Ports::FixedSrc => "fixedsrc",
                Ports::FixedDest => "fixeddest",
                Ports::FixedBoth => "fixedboth",
            },
            if self.privileged { "priv" } else { "unpriv" },
            if self.ext { "ext" } else { "noext" }
        )
    }

    pub fn seq_loc(&self) -> SeqLoc {
        match (self.proto, self.strategy, self.ports, self.v6) {
            (Proto::Icmp, ..) => SeqLoc::IcmpSeq,
            (Proto::Udp, MultipathStrategy::Classic, Ports::FixedDest, _) => SeqLoc::UdpSport,
            (Proto::Udp, MultipathStrategy::Classic, ..) => SeqLoc::UdpDport,
            (Proto::Udp, MultipathStrategy::Paris, ..) => SeqLoc::UdpCksum,
            (Proto::Udp, MultipathStrategy::Dublin, _, false) => SeqLoc::IpId,
            (Proto::Udp, MultipathStrategy::Dublin, _, true) => SeqLoc::PayloadLen,
            (Proto::Tcp, _, Ports::FixedSrc, _) => SeqLoc::TcpDport,
            (Proto::Tcp, ..) => SeqLoc::TcpSport,
        }
    }

    pub fn port_direction(&self) -> PortDirection {
        match self.ports {
            Ports::None => PortDirection::None,
            Ports::FixedSrc => PortDirection::new_fixed_src(FIXED_SPORT),
            Ports::FixedDest => PortDirection::new_fixed_dest(FIXED_DPORT),
            Ports::FixedBoth => PortDirection::new_fixed_both(FIXED_SPORT, FIXED_DPORT),
        }
    }

    pub fn protocol(&self) -> Protocol {
        match self.proto {
            Proto::Icmp => Protocol::Icmp,
            Proto::Udp => Protocol::Udp,
            Proto::Tcp => Protocol::Tcp,
        }
    }

    pub fn src(&self) -> IpAddr {
        if self.v6 {
            IpAddr::V6("fd00::a00:1".parse::<Ipv6Addr>().unwrap())
        } else {
            IpAddr::V4(Ipv4Addr::new(10, 0, 0, 1))
        }
    }

    pub fn dst(&self) -> IpAddr {
        if self.v6 {
            IpAddr::V6("fd00::a09:909".parse::<Ipv6Addr>().unwrap())
        } else {
            IpAddr::V4(Ipv4Addr::new(10, 9, 9, 9))
        }
    }

    pub fn hop_addr(&self, ttl: u8, branch: u8) -> IpAddr {
        if self.v6 {
            IpAddr::V6(Ipv6Addr::new(0xfd00, 0, 0, 0, 0, u16::from(branch), 0x0a00, u16::from(ttl)))
        } else {
            IpAddr::V4(Ipv4Addr::new(10, branch, ttl, 254))
        }
    }

    pub fn min_packet_size(&self) -> u16 {
        let ip = if self.v6 { 40 } else { 20 };
        ip + 8
    }
}

/// The 56 builder-accepted cells the design enumerates.
pub fn all_cells() -> Vec<Cell> {
    let mut v = vec![];
    for v6 in [false, true] {
        for ext in [false, true] {
            for privileged in [true, false] {
                v.push(Cell { proto: Proto::Icmp, v6, strategy: MultipathStrategy::Classic, ports: Ports::None, privileged, ext });
                for ports in [Ports::FixedSrc, Ports::FixedDest] {
                    v.push(Cell { proto: Proto::Udp, v6, strategy: MultipathStrategy::Classic, ports, privileged, ext });
                }
            }
            for strategy in [MultipathStrategy::Paris, MultipathStrategy::Dublin] {
                for ports in [Ports::FixedSrc, Ports::FixedDest, Ports::FixedBoth] {
                    v.push(Cell { proto: Proto::Udp, v6, strategy, ports, privileged: true, ext });
                }
            }
            for ports in [Ports::FixedSrc, Ports::FixedDest] {
                v.push(Cell { proto: Proto::Tcp, v6, strategy: MultipathStrategy::Classic, ports, privileged: true, ext });
            }
        }
    }
    v
}

/// One representative cell per protocol x family x strategy (14 cells).
pub fn base_cells() -> Vec<Cell> {
    all_cells()
        .into_iter()
        .filter(|c| c.privileged && !c.ext && matches!(c.ports, Ports::None | Ports::FixedSrc))
        .collect()
}

#[derive(Debug, Clone)]
pub struct TraceParams {
    pub first_ttl: u8,
    pub max_ttl: u8,
    pub max_inflight: u8,
    pub rounds: usize,
    pub min_round: Duration,
    pub max_round: Duration,
    pub grace: Duration,
    pub read_timeout: Duration,
    pub tcp_connect_timeout: Duration,
    pub packet_size: u16,
    pub tos: u8,
    pub pattern: u8,
    pub initial_sequence: u16,
    pub trace_id: u16,
    pub max_flows: usize,
    pub max_samples: usize,
}

impl Default for TraceParams {
    fn default() -> Self {
        Self {
            first_ttl: 1,
            max_ttl: 8,
            max_inflight: 24,
            rounds: 2,
            min_round: Duration::from_millis(25),
            max_round: Duration::from_millis(40),
            grace: Duration::from_millis(5),
            read_timeout: Duration::from_millis(10),
            tcp_connect_timeout: Duration::from_millis(1000),
            packet_size: 84,
            tos: 0,
            pattern: 0,
            initial_sequence: 33434,
            trace_id: 0x1234,
            max_flows: 64,
            max_samples: 256,
        }
    }
}

pub fn build_tracer(cell: &Cell, p: &TraceParams) -> Result<Tracer, trippy_core::Error> {
    Builder::new(cell.dst())
        .source_addr(Some(cell.src()))
        .protocol(cell.protocol())
        .trace_identifier(p.trace_id)
        .privilege_mode(if cell.privileged {
            PrivilegeMode::Privileged
        } else {
            PrivilegeMode::Unprivileged
        })
        .multipath_strategy(cell.strategy)
        .packet_size(p.packet_size)
        .payload_pattern(p.pattern)
        .tos(p.tos)
        .icmp_extension_parse_mode(if cell.ext {
            IcmpExtensionParseMode::Enabled
        } else {
            IcmpExtensionParseMode::Disabled
        })
        .read_timeout(p.read_timeout)
        .tcp_connect_timeout(p.tcp_connect_timeout)
        .max_rounds(Some(p.rounds))
        .first_ttl(p.first_ttl)
        .max_ttl(p.max_ttl)
        .grace_duration(p.grace)
        .max_inflight(p.max_inflight)
        .initial_sequence(p.initial_sequence)
        .port_direction(cell.port_direction())
        .min_round_duration(p.min_round)
        .max_round_duration(p.max_round)
        .max_samples(p.max_samples)
        .max_flows(p.max_flows)
        .build()
}

pub fn net_cfg(cell: &Cell, p: &TraceParams, topo: Topo, menu: Menu) -> NetCfg {
    NetCfg {
        v6: cell.v6,
        proto: cell.proto,
        src: cell.src(),
        dst: cell.dst(),
        topo,
        seq_loc: cell.seq_loc(),
        initial_sequence: p.initial_sequence,
        // handing over one datagram costs 1 ms of virtual time in the millisecond-scale scenarios and
        // 1 us in the microsecond-scale ones (long rounds of up to 254 probes)
        delta_ns: if p.read_timeout < Duration::from_millis(1) { 1_000 } else { MS },
        menu,
        fixed_sport: matches!(cell.ports, Ports::FixedSrc | Ports::FixedBoth).then_some(FIXED_SPORT),
        fixed_dport: matches!(cell.ports, Ports::FixedDest | Ports::FixedBoth).then_some(FIXED_DPORT),
        reroute: None,
        tcp_rtt_ns: None,
        // (the virtual clock starts at 1 s)
        deadline_ns: Some(1_000 * MS + 2 * (p.rounds as u64) * ((p.max_round + 2 * p.read_timeout).as_nanos() as u64 + 600 * if p.read_timeout < Duration::from_millis(1) { 1_000 } else { MS }) + 1_000 * MS),
    }
}

/// Topologies whose path changes between rounds: `grow-a-b` / `shrink-a-b` are `La` for rounds
/// 0 and 1 and `Lb` from round 2 on (`topo_named` gives the initial path).
pub fn reroute_named(cell: &Cell, name: &str) -> Option<(usize, Topo)> {
    let to = match name {
        "grow-2-3" | "shrink-4-3" => 3,
        "grow-2-4" => 4,
        "shrink-4-2" | "shrink-3-2" => 2,
        _ => return None,
    };
    Some((2, topo_linear(cell, to, Target::Answers)))
}

pub struct RunOutcome {
    pub world: World,
    /// `Ok(())` or the error's Debug text.
    pub result: Result<(), String>,
    pub snapshot: Option<State>,
    pub panic: Option<PanicInfo>,
    pub build_error: Option<String>,
    /// `Tracer::snapshot()` taken inside each publish callback (after the round was applied).
    pub round_snapshots: Vec<State>,
}

/// Run the real tracer (Builder -> Tracer -> Strategy -> Channel<SimSocket> -> codecs -> State)
/// over the simulated network under the given choice list.
pub fn run_trace(cell: &Cell, p: &TraceParams, net: NetCfg, chooser: Chooser) -> RunOutcome {
    let tracer = match build_tracer(cell, p) {
        Ok(t) => t,
        // every scenario of the harness uses a configuration the Builder accepts on the verified tree;
        // if a changed Builder refuses it the scenario cannot be run at all - that is not a verdict
        // about the property (acceptance itself is C16's topic and is judged there)
        Err(e) => panic!("MACHINERY: Builder::build rejects a configuration this scenario needs ({} first_ttl={} max_ttl={} initial_sequence={} packet_size={}): {e:?}", cell.name(), p.first_ttl, p.max_ttl, p.initial_sequence, p.packet_size),
    };
    simnet::install(net, chooser);
    let src = cell.src();
    let snaps: std::cell::RefCell<Vec<State>> = std::cell::RefCell::new(vec![]);
    let want_snaps = SNAPSHOT_EACH_ROUND.with(std::cell::Cell::get);
    let r = mc::catch(|| {
        tracer.verif_run_with::<SimSocket, _>(src, |round| {
            simnet::on_publish(round);
            if want_snaps {
                snaps.borrow_mut().push(tracer.snapshot());
            }
        })
    });
    let (result, panic) = match r {
        Ok(Ok(())) => (Ok(()), None),
        Ok(Err(e)) => (Err(format!("{e:?}")), None),
        Err(p) => (Err(format!("panic: {}", p.message)), Some(p)),
    };
    let snapshot = mc::catch(|| tracer.snapshot()).ok();
    let world = simnet::take();
    // a run cut off at its virtual-time horizon would never have ended
    let result = if world.runaway { Err(format!("NEVER-ENDS: the run was still waiting for input at twice the time its {} rounds can take (cut off: {:?})", p.rounds, result)) } else { result };
    RunOutcome {
        world,
        result,
        snapshot,
        panic,
        build_error: None,
        round_snapshots: snaps.into_inner(),
    }
}

thread_local! {
    /// When set, `run_trace` records `Tracer::snapshot()` after every published round.
    pub static SNAPSHOT_EACH_ROUND: std::cell::Cell<bool> = const { std::cell::Cell::new(false) };
}

// ---------------------------------------------------------------------------------------------
// Topology catalogue

pub fn topo_linear(cell: &Cell, l: usize, target: Target) -> Topo {
    // l = distance of the target; l-1 routers in front of it
    let hops = (1..l)
        .map(|t| {
            let h = Hop::reply(cell.hop_addr(t as u8, 0));
            // vary quotation length along the path: odd hops quote header+8 (v4), even hops all
            if cell.v6 || t % 2 == 0 {
                h.quote(Quote::Full)
            } else {
                h
            }
        })
        .collect();
    Topo {
        hops,
        target,
        target_quote: Quote::Full,
    }
}

pub fn topo_named(cell: &Cell, name: &str) -> Topo {
    let mut t = match name {
        "L1" => topo_linear(cell, 1, Target::Answers),
        "L2" | "grow-2-3" | "grow-2-4" => topo_linear(cell, 2, Target::Answers),
        "L3" | "L3-flaky" | "shrink-3-2" | "silent-mid" | "every-other" | "dup" | "ecmp" | "refuse" => topo_linear(cell, 3, Target::Answers),
        "L4" | "shrink-4-2" | "shrink-4-3" => topo_linear(cell, 4, Target::Answers),
        "silent-target" => topo_linear(cell, 3, Target::Silent),
        "far-target-late" => {
            // 199 silent routers, the target at distance 200 starts answering in round 1
            let mut t = topo_linear(cell, 200, Target::AnswersFromRound(1));
            t.hops.iter_mut().for_each(|h| h.kind = HopKind::Silent);
            t
        }
        "far-target-from-round-2" => {
            // 99 silent routers; the target at distance 100 is silent in rounds 0 and 1
            let mut t = topo_linear(cell, 100, Target::AnswersFromRound(2));
            t.hops.iter_mut().for_each(|h| h.kind = HopKind::Silent);
            t
        }
        "silent-all" | "silent-all-flaky" => {
            let mut t = topo_linear(cell, 3, Target::Silent);
            t.hops.iter_mut().for_each(|h| h.kind = HopKind::Silent);
            t
        }
        other => panic!("MACHINERY: unknown topology {other}"),
    };
    match name {
        "silent-mid" => t.hops[1].kind = HopKind::Silent,
        "every-other" => t.hops[0].kind = HopKind::EveryOther,
        "dup" => t.hops[1].kind = HopKind::Duplicate,
        "ecmp" => t.hops[1].kind = HopKind::Ecmp(vec![cell.hop_addr(2, 1), cell.hop_addr(2, 2)]),
        "refuse" => t.target = Target::Refuses,
        _ => {}
    }
    t
}

/// Every topology name `topo_named` understands (replay artefacts name one of these).
pub const TOPO_NAMES: &[&str] = &["L1", "L2", "L3", "L3-flaky", "L4", "grow-2-3", "grow-2-4", "shrink-4-2", "shrink-4-3", "shrink-3-2", "silent-mid", "silent-target", "silent-all", "silent-all-flaky", "every-other", "dup", "ecmp", "refuse", "far-target-late", "far-target-from-round-2"];
pub const TOPOLOGIES: &[&str] = &["L1", "L2", "L3", "silent-mid", "silent-target", "every-other", "dup", "ecmp"];

// ---------------------------------------------------------------------------------------------
// Direct channel access (no strategy): real `Channel<SimSocket>` dispatch / receive path.

use trippy_core::verif::{Channel, ChannelConfig};
use trippy_core::{PacketSize, PayloadPattern, Sequence, TypeOfService};

pub fn channel_config(cell: &Cell, p: &TraceParams) -> ChannelConfig {
    ChannelConfig {
        privilege_mode: if cell.privileged {
            PrivilegeMode::Privileged
        } else {
            PrivilegeMode::Unprivileged
        },
        protocol: cell.protocol(),
        source_addr: cell.src(),
        target_addr: cell.dst(),
        packet_size: PacketSize(p.packet_size),
        payload_pattern: PayloadPattern(p.pattern),
        initial_sequence: Sequence(p.initial_sequence),
        tos: TypeOfService(p.tos),
        icmp_extension_parse_mode: if cell.ext {
            IcmpExtensionParseMode::Enabled
        } else {
            IcmpExtensionParseMode::Disabled
        },
        read_timeout: p.read_timeout,
        tcp_connect_timeout: p.tcp_connect_timeout,
    }
}

/// Connect a real channel over the (already installed) simulated world.
pub fn make_channel(cell: &Cell, p: &TraceParams) -> Result<Channel<SimSocket>, trippy_core::Error> {
    Channel::<SimSocket>::connect(&channel_config(cell, p))
}

/// Build the probe the strategy would build for this cell (harness-side restatement of the
/// documented strategies; used only where the real allocator is not in the loop, e.g. C11/C13).
pub fn make_probe(cell: &Cell, p: &TraceParams, seq: u16, ttl: u8, round: usize) -> trippy_core::Probe {
    use trippy_core::{Flags, Port, RoundId, TimeToLive, TraceId};
    let round_port = ((usize::from(p.initial_sequence) + round) % usize::from(u16::MAX)) as u16;
    let (sport, dport, id, flags) = match (cell.proto, cell.strategy, cell.ports) {
        (Proto::Icmp, ..) => (0, 0, p.trace_id, Flags::empty()),
        (Proto::Udp, MultipathStrategy::Classic, Ports::FixedDest) => (seq, FIXED_DPORT, 0, Flags::empty()),
        (Proto::Udp, MultipathStrategy::Classic, _) => (FIXED_SPORT, seq, 0, Flags::empty()),
        (Proto::Udp, MultipathStrategy::Paris, Ports::FixedSrc) => (FIXED_SPORT, round_port, 0, Flags::PARIS_CHECKSUM),
        (Proto::Udp, MultipathStrategy::Paris, Ports::FixedDest) => (round_port, FIXED_DPORT, 0, Flags::PARIS_CHECKSUM),
        (Proto::Udp, MultipathStrategy::Paris, _) => (FIXED_SPORT, FIXED_DPORT, 0, Flags::PARIS_CHECKSUM),
        (Proto::Udp, MultipathStrategy::Dublin, Ports::FixedSrc) => (FIXED_SPORT, round_port, seq, Flags::DUBLIN_IPV6_PAYLOAD_LENGTH),
        (Proto::Udp, MultipathStrategy::Dublin, Ports::FixedDest) => (round_port, FIXED_DPORT, seq, Flags::DUBLIN_IPV6_PAYLOAD_LENGTH),
        (Proto::Udp, MultipathStrategy::Dublin, _) => (FIXED_SPORT, FIXED_DPORT, seq, Flags::DUBLIN_IPV6_PAYLOAD_LENGTH),
        (Proto::Tcp, _, Ports::FixedSrc) => (FIXED_SPORT, seq, 0, Flags::empty()),
        (Proto::Tcp, ..) => (seq, FIXED_DPORT, 0, Flags::empty()),
    };
    trippy_core::Probe {
        sequence: Sequence(seq),
        identifier: TraceId(id),
        src_port: Port(sport),
        dest_port: Port(dport),
        ttl: TimeToLive(ttl),
        round: RoundId(round),
        sent: std::time::SystemTime::now(),
        flags,
    }
}
