//! C15 — flow identifiers are stable, consistent and bounded.
//! E3 on the real `State` (+ `FlowRegistry` through it): all histories of ECMP-style rounds.

use crate::c05;
use crate::mc;
use crate::refstate::{self, RoundRec};
use crate::report::{Args, Finding, Report, Tier};
use crate::stateexp::{self, Out, Shape};
use serde_json::json;
use std::collections::BTreeMap;
use std::net::IpAddr;
use std::sync::Mutex;
use trippy_core::verif::{FlowEntry, StateConfig};
use trippy_core::{FlowId, ProbeStatus, State};

type Findings = BTreeMap<String, Finding>;
const MS: u64 = 1_000_000;

fn alphabet(first_ttl: u8) -> Vec<Shape> {
    let c = |sel: u8| Out::C(2 * MS, sel, None, None);
    let mut v = vec![];
    // path length 1..3; per hop address a1 / a2 / unknown; optional failed probe
    for outs in [
        vec![c(1)],
        vec![c(2)],
        vec![Out::A],
        vec![c(1), c(1)],
        vec![c(1), c(2)],
        vec![c(2), c(1)],
        vec![c(1), Out::A],
        vec![Out::A, c(1)],
        vec![Out::A, c(2)],
        vec![Out::A, Out::A],
        vec![c(1), c(1), c(1)],
        vec![c(1), c(2), c(1)],
        vec![c(1), Out::A, c(1)],
        vec![c(2), Out::A, c(1)],
        vec![Out::A, Out::A, c(1)],
        vec![c(1), c(1), Out::A],
        vec![Out::F, c(1)],
        vec![c(1), Out::F, c(1)],
        vec![Out::F, c(2), c(1)],
        // a TCP probe found its port taken: the abandoned slot is Skipped and the same ttl goes
        // out again under the next sequence - a skipped slot is not a hop position
        vec![Out::S, c(1), c(1)],
        vec![c(1), Out::S, c(1), c(1)],
        vec![c(1), Out::S, Out::S, c(2), c(1)],
        // one host at two positions (the target answers two probes of a round; a routing loop)
        vec![c(1), c(200), c(200)],
        vec![c(200), c(1), c(200)],
    ] {
        v.push(Shape { first_ttl, outs, largest_ttl: None });
    }
    // carried target distance (strategy.rs publish_trace): nothing, or only the first hop, answers
    // in a round that is still published with path length 3
    v.push(Shape { first_ttl, outs: vec![Out::A, Out::A, Out::A], largest_ttl: Some(first_ttl + 2) });
    v.push(Shape { first_ttl, outs: vec![c(1), Out::A, Out::A], largest_ttl: Some(first_ttl + 2) });
    v
}

fn ttl_of(p: &ProbeStatus) -> Option<u8> {
    match p {
        ProbeStatus::Complete(c) => Some(c.ttl.0),
        ProbeStatus::Awaited(a) => Some(a.ttl.0),
        ProbeStatus::Failed(f) => Some(f.ttl.0),
        _ => None,
    }
}

fn entries(st: &State) -> Vec<(u64, Vec<Option<IpAddr>>)> {
    st.flows()
        .iter()
        .map(|(f, id)| {
            (
                id.0,
                f.entries
                    .iter()
                    .map(|e| match e {
                        FlowEntry::Known(a) => Some(*a),
                        FlowEntry::Unknown => None,
                    })
                    .collect(),
            )
        })
        .collect()
}

/// Does `flow` (by TTL position) contradict `existing`?
fn matches(existing: &[Option<IpAddr>], flow: &[Option<IpAddr>]) -> bool {
    !existing.iter().zip(flow).any(|(a, b)| matches!((a, b), (Some(x), Some(y)) if x != y))
}

/// The round's addresses by position = TTL - first probed TTL, up to the round's path length.
fn round_positions(r: &RoundRec) -> Vec<Option<IpAddr>> {
    let first = r.probes.iter().filter_map(ttl_of).min();
    let Some(first) = first else { return vec![] };
    let mut v: Vec<Option<IpAddr>> = vec![];
    for p in &r.probes {
        let Some(t) = ttl_of(p) else { continue };
        if t > r.largest_ttl {
            continue;
        }
        let pos = usize::from(t - first);
        if v.len() <= pos {
            v.resize(pos + 1, None);
        }
        if let ProbeStatus::Complete(c) = p {
            v[pos] = Some(c.host);
        }
    }
    v
}

/// Replay the history on a fresh state and evaluate the statement's invariants after every round.
pub fn oracle(cfg: StateConfig, hist: &[RoundRec], final_state: &State) -> Vec<(String, String)> {
    let mut bad = vec![];
    let mut st = State::new(cfg);
    // flow id -> indices of rounds attributed to it
    let mut attributed: BTreeMap<u64, Vec<usize>> = BTreeMap::new();
    let mut prev_entries: Vec<(u64, Vec<Option<IpAddr>>)> = vec![];
    for (k, r) in hist.iter().enumerate() {
        let before_counts: BTreeMap<u64, usize> = prev_entries.iter().map(|(id, _)| (*id, st.round_count(FlowId(*id)))).collect();
        let at_cap = prev_entries.len() >= cfg.max_flows;
        stateexp::apply(&mut st, r);
        let now = entries(&st);
        // I1 dense ids, I4 bound
        for (i, (id, _)) in now.iter().enumerate() {
            if *id != i as u64 + 1 {
                bad.push(("flow-ids-not-dense".into(), format!("after round {k}: ids {:?}", now.iter().map(|x| x.0).collect::<Vec<_>>())));
                break;
            }
        }
        if now.len() > cfg.max_flows {
            bad.push(("more-flows-than-max".into(), format!("after round {k}: {} flows, max {}", now.len(), cfg.max_flows)));
        }
        // I2 monotone
        for (id, old) in &prev_entries {
            match now.iter().find(|(i, _)| i == id) {
                None => bad.push(("flow-forgotten".into(), format!("after round {k}: flow {id} disappeared"))),
                Some((_, new)) => {
                    if new.len() < old.len() || old.iter().zip(new).any(|(o, n)| o.is_some() && o != n) {
                        bad.push(("flow-contradicts-or-forgets".into(), format!("after round {k}: flow {id} was {old:?} and is now {new:?}")));
                    }
                }
            }
        }
        // which flow did this round go to (round counts that advanced)
        let advanced: Vec<u64> = now.iter().map(|(id, _)| *id).filter(|id| st.round_count(FlowId(*id)) == before_counts.get(id).copied().unwrap_or(0) + 1).collect();
        if advanced.len() > 1 {
            bad.push(("round-attributed-to-several-flows".into(), format!("round {k}: {advanced:?}")));
        }
        let pos = round_positions(r);
        if let Some(fid) = advanced.first() {
            attributed.entry(*fid).or_default().push(k);
            if st.round_flow_id().0 != *fid {
                bad.push(("round-flow-id".into(), format!("round {k}: round_flow_id() = {} but flow {fid} advanced", st.round_flow_id().0)));
            }
            // I3 agreement, position by position (position = TTL - first probed TTL)
            let fe = &now.iter().find(|(i, _)| i == fid).unwrap().1;
            for (p, a) in pos.iter().enumerate() {
                if let Some(a) = a {
                    match fe.get(p) {
                        Some(Some(x)) if x == a => {}
                        other => bad.push(("flow-disagrees-with-round".into(), format!("round {k} attributed to flow {fid}: address {a} seen at position {p} but the flow records {other:?} there (flow {fe:?})"))),
                    }
                }
            }
        }
        // I5 behaviour at the cap
        if at_cap {
            let matching = prev_entries.iter().find(|(_, e)| matches(e, &pos)).map(|x| x.0);
            if now.len() != prev_entries.len() {
                bad.push(("flow-created-at-cap".into(), format!("round {k}: {} -> {} flows with max {}", prev_entries.len(), now.len(), cfg.max_flows)));
            }
            match (matching, advanced.first()) {
                (Some(m), Some(a)) if m == *a => {}
                (Some(m), other) => bad.push(("matching-round-not-attributed-at-cap".into(), format!("round {k} matches existing flow {m} (max_flows {} reached) but was attributed to {other:?}", cfg.max_flows))),
                (None, Some(a)) => bad.push(("non-matching-round-attributed-at-cap".into(), format!("round {k} matches no flow but flow {a} advanced"))),
                (None, None) => {}
            }
        }
        prev_entries = now;
    }
    // the explored state must be what the replay produced
    if refstate::state_key(&st) != refstate::state_key(final_state) {
        bad.push(("MACHINERY-replay-differs".into(), "replayed state differs from the explored one".into()));
    }
    // I6 default flow = all rounds (C05's oracle); I7 each flow = exactly its rounds
    for (k, d) in c05::oracle(&st, hist, cfg.max_samples) {
        bad.push((format!("default-flow:{k}"), d));
    }
    if st.round_count(State::default_flow_id()) != hist.len() {
        bad.push(("default-flow-round-count".into(), format!("{} vs {}", st.round_count(State::default_flow_id()), hist.len())));
    }
    for (id, _) in &prev_entries {
        let rounds = attributed.get(id).cloned().unwrap_or_default();
        if st.round_count(FlowId(*id)) != rounds.len() {
            bad.push(("flow-round-count".into(), format!("flow {id}: round_count {} but {} rounds were attributed", st.round_count(FlowId(*id)), rounds.len())));
        }
        let mine: Vec<&RoundRec> = rounds.iter().map(|i| &hist[*i]).collect();
        let reference = refstate::aggregate(&mine);
        match mc::catch(|| st.hops_for_flow(FlowId(*id)).to_vec()) {
            Err(p) => bad.push((format!("{}@hops_for_flow", p.key()), p.message)),
            Ok(hops) => {
                for h in hops.iter().filter(|h| h.ttl() != 0) {
                    if let Some(rh) = reference.hops.get(&h.ttl()) {
                        for (kk, d) in refstate::compare_hop(h, rh, cfg.max_samples) {
                            bad.push((format!("flow-stats:{kk}"), format!("flow {id} hop {}: {d}", h.ttl())));
                        }
                    } else if h.total_sent() > 0 {
                        bad.push(("flow-stats:phantom".into(), format!("flow {id} hop {} has data from rounds not attributed to it", h.ttl())));
                    }
                }
            }
        }
    }
    bad
}

pub fn replay(path: &str) -> i32 {
    let s = std::fs::read_to_string(path).expect("MACHINERY: cannot read replay file");
    let v: serde_json::Value = serde_json::from_str(&s).expect("MACHINERY: replay JSON");
    let r = if v.get("replay").is_some() { &v["replay"] } else { &v };
    let first_ttl = r["first_ttl"].as_u64().unwrap() as u8;
    let max_flows = r["max_flows"].as_u64().unwrap() as usize;
    let al = alphabet(first_ttl);
    let cfg = StateConfig { max_samples: 3, max_flows };
    let mut st = State::new(cfg);
    let mut hist = vec![];
    for (i, x) in r["history"].as_array().unwrap().iter().enumerate() {
        let sh = &al[x.as_u64().unwrap() as usize];
        let rr = stateexp::build(sh, i, (i as u16) * 16);
        stateexp::apply(&mut st, &rr);
        println!("round {i}: {:?} -> round_flow_id {} flows {:?}", sh.outs, st.round_flow_id().0, st.flows().iter().map(|(f, id)| format!("{}: {f} ({} rounds)", id.0, st.round_count(*id))).collect::<Vec<_>>());
        hist.push(rr);
    }
    let bad = oracle(cfg, &hist, &st);
    for (k, d) in &bad {
        println!("DISCREPANCY {k}: {d}");
    }
    if bad.is_empty() {
        println!("replay: property held");
        0
    } else {
        println!("VIOLATION property=C15 replay={path}");
        1
    }
}

pub fn run(args: &Args) -> i32 {
    if let Some(path) = &args.replay {
        return replay(path);
    }
    let tier = args.tier;
    let mut rep = Report::new("C15", tier, "model_checking");
    let findings: Mutex<Findings> = Mutex::new(Findings::new());
    let agg = Mutex::new((0u64, 0u64, 0u64, 0usize, vec![]));
    let depth = if tier == Tier::Thorough { 5 } else { 4 };
    let mut tasks = vec![];
    for first_ttl in [1u8, 2] {
        for max_flows in [1usize, 2, 3, 64] {
            for first in 0..alphabet(first_ttl).len() {
                tasks.push((first_ttl, max_flows, first));
            }
        }
    }
    mc::par_for(tasks.len(), mc::workers(), |ti| {
        let (first_ttl, max_flows, first) = tasks[ti];
        let al = alphabet(first_ttl);
        let cfg = StateConfig { max_samples: 3, max_flows };
        let mut local = Findings::new();
        let mut evals = 0u64;
        let mut sample = None;
        let d = if max_flows == 64 && tier == Tier::Quick { depth - 1 } else { depth };
        let stats = stateexp::dfs(cfg, &al, d, Some(first), &refstate::state_key, &mut |st, hist, idx| {
            evals += 1;
            // the invariants are evaluated on every prefix by the replay, so only leaves and
            // nodes at every depth need one call each
            for (k, detail) in oracle(cfg, hist, st) {
                let e = local.entry(k.clone()).or_insert_with(|| Finding { key: k, detail: format!("[first_ttl={first_ttl} max_flows={max_flows} history={:?}] {detail}", idx.iter().map(|i| format!("{:?}", al[*i].outs)).collect::<Vec<_>>()), replay: json!({"check":"C15","first_ttl":first_ttl,"max_flows":max_flows,"history":idx}), weight: (hist.len(), 0), count: 0 });
                e.count += 1;
            }
            if sample.is_none() && idx.len() == d && ti % 37 == 0 {
                sample = Some(json!({"first_ttl": first_ttl, "max_flows": max_flows, "history": idx.iter().map(|i| format!("{:?}", al[*i].outs)).collect::<Vec<_>>(), "flows": st.flows().iter().map(|(f, id)| format!("{}: {f}", id.0)).collect::<Vec<_>>()}));
            }
            local.len() < 40
        });
        for (what, pn, hidx) in &stats.panics {
            let key = format!("{}:{what}", pn.key());
            local.entry(key.clone()).or_insert_with(|| Finding { key, detail: format!("[first_ttl={first_ttl} history={hidx:?}] {what} panicked: {} at {}:{}", pn.message, pn.file, pn.line), replay: json!({"check":"C15","first_ttl":first_ttl,"max_flows":max_flows,"history":hidx}), weight: (hidx.len(), 0), count: 1 });
        }
        let mut a = agg.lock().unwrap();
        a.0 += stats.states;
        a.1 += stats.transitions;
        a.2 += evals;
        a.3 = a.3.max(stats.max_depth);
        if let Some(s) = sample {
            if a.4.len() < 3 {
                a.4.push(s);
            }
        }
        drop(a);
        let mut g = findings.lock().unwrap();
        for (k, f) in local {
            match g.get_mut(&k) {
                Some(o) => {
                    o.count += f.count;
                    if f.weight < o.weight {
                        let c = o.count;
                        *o = f;
                        o.count = c;
                    }
                }
                None => {
                    g.insert(k, f);
                }
            }
        }
    });
    let (states, transitions, evals, max_depth, samples) = agg.into_inner().unwrap();
    rep.merge_findings(findings.into_inner().unwrap());
    rep.set("states", json!(states));
    rep.set("transitions", json!(transitions));
    rep.set("traces_validated_against_impl", json!(transitions));
    rep.set("evaluations", json!(evals));
    rep.set("distinct_nontrivial", json!(states));
    rep.set("depth_completed", json!(depth));
    rep.set("max_depth", json!(max_depth));
    rep.set("rule", json!(format!("state = real State + FlowRegistry; 19 round shapes (path length 1..3, per-hop address a1/a2/unknown, failed probes) x first_ttl {{1,2}} x max_flows {{1,2,3,64}}: ALL histories to depth {depth} (max_flows 64: {} in quick), de-duplicated on (depth, every getter of every flow); after every round the statement's invariants: dense ids from 1, flows only gain information, attributed flow agrees with every address of the round at position TTL - first probed TTL, <= max_flows flows, at the cap matching rounds are still attributed and non-matching ones create nothing, default flow = all rounds, each flow's round count and hop statistics = recomputation over exactly its rounds", depth - 1)));
    for s in samples {
        rep.sample(s);
    }
    rep.assumptions = vec!["synthetic rounds obey the strategy's contract (DESIGN.md 5.4)".into()];
    rep.finish()
}
