//! C09 — termination, round count and failure semantics.
//! Fault enumeration: every socket call of the run is a fault position; E1 explores all
//! executions with <= k faults (and scheduling deviations) over the simulated network.

use crate::c01::{self, Expect, Task};
use crate::drive::{self, Cell, Ports, RunOutcome, TraceParams};
use crate::mc::{self, Chooser};
use crate::report::{Args, Finding, Report, Tier};
use crate::simnet::{self, AttemptOutcome, Menu, Proto};
use serde_json::{json, Value};
use std::collections::{BTreeMap, HashSet};
use std::sync::Mutex;
use trippy_core::{MultipathStrategy, ProbeStatus};

#[derive(Debug, Clone, Copy, PartialEq, Eq)]
pub enum Class {
    Transient,
    AddrInUse,
    Fatal,
    Ignored,
}

/// Which errno a configuration treats how (the code's per-configuration contract, DESIGN.md 5.9).
pub fn classify(cell: &Cell, op: &str, errno: i32) -> Class {
    use simnet::{EADDRINUSE, EADDRNOTAVAIL, EAGAIN, EHOSTUNREACH, EINVAL, ENETUNREACH};
    match op {
        "send_to" => match (cell.proto, cell.v6, cell.privileged) {
            (Proto::Icmp, false, _) if [EHOSTUNREACH, ENETUNREACH, EINVAL].contains(&errno) => Class::Transient,
            (Proto::Udp, false, true) if [EHOSTUNREACH, ENETUNREACH].contains(&errno) => Class::Transient,
            _ => Class::Fatal,
        },
        "bind" => {
            if errno == EADDRINUSE {
                if cell.proto == Proto::Tcp {
                    Class::AddrInUse
                } else {
                    Class::Fatal
                }
            } else if errno == EADDRNOTAVAIL && !cell.v6 {
                Class::Transient
            } else {
                Class::Fatal
            }
        }
        "connect" => {
            if errno == EADDRINUSE {
                Class::AddrInUse
            } else if errno == ENETUNREACH && !cell.v6 {
                Class::Transient
            } else {
                Class::Fatal
            }
        }
        "read" | "recv_from" if errno == EAGAIN => Class::Ignored,
        _ => Class::Fatal,
    }
}

/// The socket failures `cell` survives (slot Failed, or Skipped and re-issued), per call site.
pub fn transient_faults(cell: &Cell) -> Menu {
    use simnet::{EADDRINUSE, EADDRNOTAVAIL, EHOSTUNREACH, EINVAL, ENETUNREACH};
    let ok = |op: &str, errnos: &[i32]| -> Vec<i32> { errnos.iter().copied().filter(|e| matches!(classify(cell, op, *e), Class::Transient | Class::AddrInUse)).collect() };
    Menu {
        send_faults: ok("send_to", &[EHOSTUNREACH, ENETUNREACH, EINVAL]),
        bind_faults: ok("bind", &[EADDRINUSE, EADDRNOTAVAIL]),
        connect_faults: ok("connect", &[EADDRINUSE, ENETUNREACH]),
        ..Menu::default()
    }
}

fn menu(sched: bool) -> Menu {
    use simnet::{EACCES, EADDRINUSE, EADDRNOTAVAIL, EAGAIN, ECONNREFUSED, EHOSTUNREACH, EINVAL, EIO, ENETUNREACH};
    Menu {
        delay: sched,
        loss: sched,
        send_faults: vec![EHOSTUNREACH, ENETUNREACH, EINVAL, EIO],
        bind_faults: vec![EADDRINUSE, EADDRNOTAVAIL, EACCES],
        connect_faults: vec![EADDRINUSE, ENETUNREACH, EHOSTUNREACH, ECONNREFUSED],
        recv_faults: vec![EAGAIN, EIO],
        select_faults: vec![EIO],
        stream_faults: vec![EIO],
        ..Menu::default()
    }
}

fn run_once(t: &Task, sched: bool, ch: Chooser) -> RunOutcome {
    let topo = drive::topo_named(&t.cell, t.topo);
    let net = drive::net_cfg(&t.cell, &t.params, topo, menu(sched));
    drive::run_trace(&t.cell, &t.params, net, ch)
}

pub fn judge(t: &Task, o: &RunOutcome) -> Vec<(String, String)> {
    let mut bad = vec![];
    let w = &o.world;
    if let Some(p) = &o.panic {
        bad.push((p.key(), format!("{} at {}:{}", p.message, p.file, p.line)));
        return bad;
    }
    let classes: Vec<(usize, &'static str, i32, Class)> = w.faults_injected.iter().map(|(pos, op, e)| (*pos, *op, *e, classify(&t.cell, op, *e))).collect();
    let fatal = classes.iter().find(|c| c.3 == Class::Fatal);
    match (fatal, &o.result) {
        (None, Ok(())) => {
            if w.publishes.len() != t.params.rounds {
                bad.push(("round-count".into(), format!("{} rounds published, limit {}", w.publishes.len(), t.params.rounds)));
            }
            if let Some(st) = &o.snapshot {
                if st.error().is_some() {
                    bad.push(("error-without-fatal-fault".into(), format!("snapshot error {:?}", st.error())));
                }
            }
        }
        (None, Err(e)) => bad.push(("run-failed-without-fatal-fault".into(), format!("faults {classes:?}: run returned {e}"))),
        (Some(f), Ok(())) => bad.push((format!("fatal-fault-swallowed:{}", f.1), format!("fatal fault {f:?} but the run returned Ok"))),
        (Some(f), Err(e)) => {
            let want = match f.2 {
                simnet::EIO => "Input/output error",
                simnet::EACCES => "Permission denied",
                simnet::EINVAL => "Invalid argument",
                simnet::EHOSTUNREACH => "No route to host",
                simnet::ENETUNREACH => "Network is unreachable",
                simnet::ECONNREFUSED => "Connection refused",
                simnet::EADDRNOTAVAIL => "Cannot assign requested address",
                simnet::EADDRINUSE => "AddressInUse",
                _ => "",
            };
            let os = format!("os error {}", f.2);
            if !(e.contains(want) || e.contains(&format!("code: {}", f.2)) || e.contains(&os)) {
                bad.push(("wrong-error-returned".into(), format!("fatal fault {f:?} but the run returned {e}")));
            }
            match o.snapshot.as_ref().map(|s| s.error().map(str::to_string)) {
                Some(Some(_)) => {}
                other => bad.push(("fatal-error-not-visible-in-snapshot".into(), format!("fatal fault {f:?}: snapshot error is {other:?}"))),
            }
            if w.publishes.len() > t.params.rounds {
                bad.push(("round-count".into(), format!("{} rounds", w.publishes.len())));
            }
        }
    }
    // per-round checks against ground truth (exact status per fault class)
    for r in 0..w.publishes.len() {
        let p = &w.publishes[r];
        let exp = c01::expectations(w, r);
        let attempts: Vec<&simnet::Attempt> = w.attempts.iter().filter(|a| a.round == r).collect();
        if p.probes.len() != exp.len() {
            bad.push(("slot-count".into(), format!("round {r}: {} slots, {} attempts", p.probes.len(), exp.len())));
            continue;
        }
        for (i, (slot, e)) in p.probes.iter().zip(&exp).enumerate() {
            let rid = match slot {
                ProbeStatus::Complete(c) => Some(c.round.0),
                ProbeStatus::Awaited(a) => Some(a.round.0),
                ProbeStatus::Failed(f) => Some(f.round.0),
                _ => None,
            };
            if rid.is_some_and(|x| x != r) {
                bad.push(("round-id".into(), format!("publish {r} slot {i} carries round id {rid:?}")));
            }
            if let Expect::Faulted { errno } = e {
                let op = match &attempts[i].outcome {
                    AttemptOutcome::Fault { op, .. } => *op,
                    _ => "?",
                };
                match (classify(&t.cell, op, *errno), slot) {
                    (Class::Transient, ProbeStatus::Failed(_)) | (Class::AddrInUse, ProbeStatus::Skipped) => {}
                    (Class::AddrInUse, other) => bad.push(("addr-in-use-slot".into(), format!("round {r} slot {i}: address in use at {op} but slot is {other:?}"))),
                    (Class::Transient, other) => bad.push(("transient-slot".into(), format!("round {r} slot {i}: transient fault {errno} at {op} but slot is {other:?}"))),
                    (c, other) => bad.push(("fault-slot".into(), format!("round {r} slot {i}: fault {errno} at {op} ({c:?}) slot {other:?}"))),
                }
                // re-issue: next slot same ttl, next sequence
                if classify(&t.cell, op, *errno) == Class::AddrInUse {
                    let next = p.probes.get(i + 1);
                    let (nttl, nseq) = match next {
                        Some(ProbeStatus::Awaited(a)) => (Some(a.ttl.0), Some(a.sequence.0)),
                        Some(ProbeStatus::Complete(c)) => (Some(c.ttl.0), Some(c.sequence.0)),
                        Some(ProbeStatus::Failed(f)) => (Some(f.ttl.0), Some(f.sequence.0)),
                        _ => (None, None),
                    };
                    // the abandoned slot's ttl/sequence: previous attempt's successor in the send log
                    if let Some(ProbeStatus::Skipped) = next {
                        // consecutive re-issues: fine
                    } else if next.is_none() {
                        // the abandoned slot is the last one of the round: the probe was never re-issued
                        // (legitimate only if the run ended right there with an error)
                        if o.result.is_ok() {
                            bad.push(("skipped-without-reissue".into(), format!("round {r} slot {i}: address in use at {op}, slot Skipped, but no probe was re-issued under the next sequence")));
                        }
                    } else if next.is_some() {
                        // ttl of the skipped slot = ttl the next datagram actually carries
                        let sent_next = w.attempts.iter().filter(|a| a.round == r).nth(i + 1).and_then(|a| match a.outcome {
                            AttemptOutcome::Sent(idx) => Some(&w.sent[idx]),
                            _ => None,
                        });
                        if let (Some(s), Some(nt), Some(ns)) = (sent_next, nttl, nseq) {
                            if s.ttl != nt || s.seq != Some(ns) {
                                bad.push(("reissue-mismatch".into(), format!("round {r} slot {}: wire ttl {} seq {:?} vs slot ttl {nt} seq {ns}", i + 1, s.ttl, s.seq)));
                            }
                        }
                    }
                }
            }
        }
        // everything else exactly as C01
        for (k, d) in c01::check_round(w, r) {
            bad.push((k, d));
        }
        // TTL sequence with re-issues: a skipped slot does not advance the TTL
        let mut expect_ttl = t.params.first_ttl;
        for (i, a) in attempts.iter().enumerate() {
            let skipped = matches!(p.probes[i], ProbeStatus::Skipped);
            if let AttemptOutcome::Sent(idx) = a.outcome {
                if w.sent[idx].ttl != expect_ttl {
                    bad.push(("ttl-after-reissue".into(), format!("round {r} attempt {i}: ttl {} expected {expect_ttl}", w.sent[idx].ttl)));
                }
            }
            if !skipped {
                expect_ttl = expect_ttl.wrapping_add(1);
            }
        }
    }
    bad
}

#[derive(Default)]
struct Agg {
    stats: mc::ExploreStats,
    findings: BTreeMap<String, Finding>,
    digests: u64,
    fault_runs: u64,
    by_class: BTreeMap<String, u64>,
    samples: Vec<Value>,
    replays: u64,
}

pub fn run(args: &Args) -> i32 {
    if let Some(path) = &args.replay {
        return replay(path);
    }
    let tier = args.tier;
    let mut rep = Report::new("C09", tier, "fault_enumeration");
    let k = if tier == Tier::Thorough { 4 } else { 3 };
    let mk = |proto, v6, strategy, ports, privileged| Cell { proto, v6, strategy, ports, privileged, ext: false };
    let cells = vec![
        mk(Proto::Icmp, false, MultipathStrategy::Classic, Ports::None, true),
        mk(Proto::Icmp, true, MultipathStrategy::Classic, Ports::None, true),
        mk(Proto::Udp, false, MultipathStrategy::Classic, Ports::FixedSrc, true),
        mk(Proto::Udp, false, MultipathStrategy::Classic, Ports::FixedSrc, false),
        mk(Proto::Udp, true, MultipathStrategy::Classic, Ports::FixedSrc, true),
        mk(Proto::Udp, true, MultipathStrategy::Classic, Ports::FixedDest, false),
        mk(Proto::Udp, false, MultipathStrategy::Dublin, Ports::FixedBoth, true),
        mk(Proto::Tcp, false, MultipathStrategy::Classic, Ports::FixedSrc, true),
        mk(Proto::Tcp, true, MultipathStrategy::Classic, Ports::FixedDest, true),
    ];
    let mut tasks: Vec<(Task, bool)> = vec![];
    for cell in &cells {
        for n in [1usize, 2, 3] {
            for topo in ["L1", "L2"] {
                let mut p = TraceParams::default();
                p.rounds = n;
                p.packet_size = if cell.v6 { 96 } else { 84 };
                // faults only, and faults combined with one scheduling deviation
                tasks.push((Task { cell: *cell, topo, params: p.clone(), bound: k }, false));
                tasks.push((Task { cell: *cell, topo, params: p, bound: k + 1 }, true));
            }
        }
    }
    // "whatever responses the network ... withholds": silent paths, many outstanding probes
    // (64 per round, 6 rounds, all within the TCP connect timeout), no faults
    for cell in &cells {
        let mut p = TraceParams::default();
        p.rounds = 6;
        p.max_ttl = 64;
        p.max_inflight = 64;
        p.read_timeout = std::time::Duration::from_micros(10);
        p.min_round = std::time::Duration::from_micros(10 * 67);
        p.max_round = std::time::Duration::from_micros(10 * 67);
        p.grace = std::time::Duration::from_micros(1);
        p.packet_size = if cell.v6 { 96 } else { 84 };
        tasks.push((Task { cell: *cell, topo: "silent-all", params: p.clone(), bound: 0 }, false));
        // the same from the highest accepted initial sequence: the allocator passes its wrap
        // threshold in the middle of a round and restarts between rounds - still n rounds and Ok
        let mut q = p;
        q.initial_sequence = 64511;
        q.rounds = 12;
        // 60 probes per round: 512 is not a multiple, so the threshold falls inside round 8
        q.max_ttl = 60;
        q.max_inflight = 60;
        q.min_round = std::time::Duration::from_micros(10 * 63);
        q.max_round = std::time::Duration::from_micros(10 * 63);
        tasks.push((Task { cell: *cell, topo: "silent-all", params: q, bound: 0 }, false));
    }
    let agg = Mutex::new(Agg::default());
    let max_points = 600;
    mc::par_for(tasks.len(), mc::workers(), |ti| {
        let (t, sched) = &tasks[ti];
        let mut local = Agg::default();
        let mut digests: HashSet<u64> = HashSet::new();
        let mut first = true;
        let stats = mc::explore(t.bound, max_points, &mut |ch| {
            let c = std::mem::replace(ch, Chooser::new(&[], 0));
            let o = run_once(t, *sched, c);
            *ch = o.world.chooser.clone();
            let dg = mc::hash64(&(c01::observation_digest(&o.world), o.result.is_ok(), o.world.faults_injected.clone()));
            digests.insert(dg);
            if *sched && o.world.faults_injected.len() > k {
                // budget: at most k faults (the extra deviation is for scheduling)
                return true;
            }
            let bad = judge(t, &o);
            if !o.world.faults_injected.is_empty() {
                local.fault_runs += 1;
                for (_, op, e) in &o.world.faults_injected {
                    *local.by_class.entry(format!("{:?}@{op}", classify(&t.cell, op, *e))).or_default() += 1;
                }
            }
            if first || !bad.is_empty() {
                let o2 = run_once(t, *sched, Chooser::new(&ch.choices, max_points));
                assert!(c01::observation_digest(&o2.world) == c01::observation_digest(&o.world) && o2.result == o.result, "MACHINERY: nondeterministic replay (C09)");
                local.replays += 1;
                first = false;
            }
            if local.samples.is_empty() && o.world.faults_injected.len() == 1 && ti % 9 == 0 {
                local.samples.push(json!({"cell": t.cell.name(), "topo": t.topo, "rounds": t.params.rounds, "choices": ch.choices, "fault": format!("{:?}", o.world.faults_injected), "result": format!("{:?}", o.result), "rounds_published": o.world.publishes.len()}));
            }
            for (key, detail) in bad {
                let key = format!("{key}@{}", t.cell.name().split('/').take(5).collect::<Vec<_>>().join("/"));
                let mut rj = c01::replay_json("C09", t, &ch.choices);
                rj["sched"] = json!(sched);
                let f = Finding { key: key.clone(), detail: format!("[{} topo={} rounds={} faults={:?}] {detail}", t.cell.name(), t.topo, t.params.rounds, o.world.faults_injected), replay: rj, weight: (ch.deviations(), ch.choices.len()), count: 1 };
                match local.findings.get_mut(&key) {
                    Some(old) => {
                        old.count += 1;
                        if f.weight < old.weight {
                            let c = old.count;
                            *old = f;
                            old.count = c;
                        }
                    }
                    None => {
                        local.findings.insert(key, f);
                    }
                }
            }
            local.findings.values().map(|f| f.count).sum::<u64>() < 300
        });
        let mut a = agg.lock().unwrap();
        a.stats.merge(&stats);
        a.digests += digests.len() as u64;
        a.fault_runs += local.fault_runs;
        a.replays += local.replays;
        for (k2, v) in local.by_class {
            *a.by_class.entry(k2).or_default() += v;
        }
        if a.samples.len() < 4 {
            a.samples.extend(local.samples);
        }
        for (_, f) in local.findings {
            match a.findings.get_mut(&f.key) {
                Some(old) => {
                    old.count += f.count;
                    if f.weight < old.weight {
                        let c = old.count;
                        *old = f;
                        old.count = c;
                    }
                }
                None => {
                    a.findings.insert(f.key.clone(), f);
                }
            }
        }
    });
    let a = agg.into_inner().unwrap();
    rep.merge_findings(a.findings);
    rep.set("evaluations", json!(a.stats.executions));
    rep.set("distinct_nontrivial", json!(a.digests));
    rep.set("executions_with_faults", json!(a.fault_runs));
    rep.set("states", json!(a.stats.states));
    rep.set("transitions", json!(a.stats.transitions));
    rep.set("traces_validated_against_impl", json!(a.stats.executions));
    rep.set("executions_by_deviations", json!(a.stats.executions_by_dev));
    rep.set("tasks", json!(tasks.len()));
    rep.set("fault_bound_completed", json!(k));
    rep.set("horizon_hits", json!(a.stats.horizon_hits));
    rep.set("determinism_replays", json!(a.replays));
    rep.observe("faults_by_class_and_call", json!(a.by_class));
    rep.set("rule", json!(format!("9 configurations x round limit {{1,2,3}} x path {{L1,L2}}: every socket call of the run (send_to, bind, connect, select, read/recv_from, and for TCP probe sockets take_error, peer_addr, shutdown) is a fault position with the errno menu send{{EHOSTUNREACH,ENETUNREACH,EINVAL,EIO}} bind{{EADDRINUSE,EADDRNOTAVAIL,EACCES}} connect{{EADDRINUSE,ENETUNREACH,EHOSTUNREACH,ECONNREFUSED}} recv{{EAGAIN,EIO}} select{{EIO}} take_error/peer_addr/shutdown of a TCP probe socket{{EIO}}; ALL executions with <= {k} faults, alone and combined with one scheduling deviation (delay/loss). Oracle from the statement: no fatal fault => Ok and exactly n rounds with ids 0..n-1; transient => exactly that slot Failed; address-in-use (tcp) => slot Skipped, same TTL re-issued under the next sequence; fatal => run returns that error, no further round, error visible in the snapshot. + silent paths with 64 probes per round: 6 rounds from the default and 12 rounds from the highest accepted initial sequence (the sequence passes its wrap threshold mid-round). distinct_nontrivial = distinct (published rounds, result, fault list) digests")));
    for s in a.samples {
        rep.sample(s);
    }
    rep.assumptions = vec![c01::ASSUME.into(), "which errno is transient per (protocol, family, privilege) is the code's contract, replicated in classify() (DESIGN.md 5.9)".into()];
    rep.finish()
}

pub fn replay(path: &str) -> i32 {
    let s = std::fs::read_to_string(path).expect("MACHINERY: cannot read replay file");
    let v: Value = serde_json::from_str(&s).expect("MACHINERY: replay JSON");
    let r = if v.get("replay").is_some() { &v["replay"] } else { &v };
    let cell = drive::all_cells()[r["cell_index"].as_u64().expect("cell_index") as usize];
    let topo_name = r["topo"].as_str().expect("topo").to_string();
    let topo: &'static str = drive::TOPO_NAMES.iter().find(|t| **t == topo_name).copied().expect("MACHINERY: topo");
    let params = c01::params_from_json(&r["params"]);
    let sched = r["sched"].as_bool().unwrap_or(false);
    let choices: Vec<u16> = r["choices"].as_array().expect("choices").iter().map(|c| c.as_u64().unwrap() as u16).collect();
    let t = Task { cell, topo, params, bound: 0 };
    let o = run_once(&t, sched, Chooser::new(&choices, 100_000));
    println!("replay C09: cell={} topo={} rounds={} choices={choices:?}", cell.name(), topo, t.params.rounds);
    println!("faults injected (call#, op, errno): {:?}", o.world.faults_injected);
    println!("result: {:?}; snapshot error: {:?}", o.result, o.snapshot.as_ref().map(|s| s.error().map(str::to_string)));
    for (i, p) in o.world.publishes.iter().enumerate() {
        println!("  round {i}:");
        for s in &p.probes {
            println!("    {s:?}");
        }
    }
    let bad = judge(&t, &o);
    for (k, d) in &bad {
        println!("DISCREPANCY {k}: {d}");
    }
    if bad.is_empty() {
        println!("replay: property held");
        0
    } else {
        println!("VIOLATION property=C09 replay={path}");
        1
    }
}
