//! C06 — probe scheduling discipline: TTL order, limits and in-flight window.
//! E1 at strategy level: real `Strategy::run` + `TracerState` over the abstract network; the
//! oracle is a monitor on the call trace, independent of `TracerState`.

use crate::mc::{self, Chooser};
use crate::report::{Args, Finding, Report, Tier};
use crate::strat::{self, SCfg, SMenu, SOutcome, SendOutcome, T_NS};
use serde_json::{json, Value};
use std::collections::{BTreeMap, HashSet};
use std::sync::Mutex;
use std::time::Duration;
use trippy_core::Protocol;

#[derive(Debug, Clone)]
pub struct Task {
    pub proto: Protocol,
    pub first_ttl: u8,
    pub max_ttl: u8,
    pub max_inflight: u8,
    /// target distance; 0 = silent target
    pub l: u8,
    pub rounds: usize,
    pub bound: usize,
    /// responses become deliverable this many receive calls after the probe was sent
    pub latency: usize,
    /// (extra hops, ttl parity) of the longer equal-cost branch; (0, _) = single path
    pub ecmp: (u8, u8),
    /// initial sequence (default 33434)
    pub init: u16,
}

pub fn scfg(t: &Task) -> SCfg {
    // rounds long enough for the whole TTL range to be issued: one probe per iteration, each
    // iteration costs at most one read timeout
    let span = u64::from(t.max_ttl.saturating_sub(t.first_ttl)) + 4;
    let iters = span.min(12);
    let max_round = Duration::from_nanos(T_NS * iters);
    let min_round = Duration::from_nanos(T_NS * (iters / 2));
    let grace = Duration::from_nanos(T_NS / 2);
    SCfg {
        protocol: t.proto,
        target_dist: (t.l > 0).then_some(t.l),
        path_len: 6,
        silent_hops: vec![],
        menu: SMenu {
            delay: true,
            reorder: true,
            dup: true,
            loss: true,
            addr_in_use: t.proto == Protocol::Tcp,
            // a transient send failure (the probe never left the host) is not an answer
            probe_failed: true,
            ..SMenu::default()
        },
        burst: vec![],
        script: vec![],
        latency: t.latency,
        ecmp_longer: t.ecmp,
        strategy: strat::strategy_config(t.proto, t.first_ttl, t.max_ttl, t.max_inflight, t.rounds, min_round, max_round, grace, t.init),
    }
}

/// The monitor: checks the call trace of one execution against the statement.
pub fn monitor(t: &Task, o: &SOutcome) -> Vec<(String, String)> {
    let mut bad = vec![];
    let w = &o.world;
    if let Some(p) = &o.panic {
        bad.push((p.key(), format!("{} at {}:{}", p.message, p.file, p.line)));
        return bad;
    }
    if let Err(e) = &o.result {
        bad.push(("run-error".into(), e.clone()));
        return bad;
    }
    if w.publishes.len() != t.rounds {
        bad.push(("round-count".into(), format!("{} rounds", w.publishes.len())));
    }
    // min ttl of target responses handed over in rounds strictly before the current one
    let mut dstar_prev: Option<u8> = None;
    for r in 0..w.publishes.len() {
        let sends: Vec<(usize, &strat::SendRec)> = w.sends.iter().enumerate().filter(|(_, s)| s.round == r).collect();
        if sends.is_empty() {
            bad.push(("no-probe-in-round".into(), format!("round {r}: no probe was sent (first_ttl {} max_inflight {})", t.first_ttl, t.max_inflight)));
        }
        let mut expect_ttl = t.first_ttl;
        let mut prev_reissue = false;
        let mut prev_seq: Option<u16> = None;
        for (k, (idx, s)) in sends.iter().enumerate() {
            // 1. TTL order
            let want = if prev_reissue { expect_ttl.wrapping_sub(1) } else { expect_ttl };
            if s.ttl != want {
                bad.push(("ttl-order".into(), format!("round {r} send {k}: ttl {} but expected {want} (after reissue: {prev_reissue})", s.ttl)));
            }
            if let Some(ps) = prev_seq {
                if s.seq != ps.wrapping_add(1) {
                    bad.push(("sequence-order".into(), format!("round {r} send {k}: sequence {} after {ps}", s.seq)));
                }
            }
            prev_seq = Some(s.seq);
            if !prev_reissue {
                expect_ttl = expect_ttl.wrapping_add(1);
            }
            prev_reissue = s.outcome == SendOutcome::AddrInUse;
            // 2. max ttl
            if s.ttl > t.max_ttl {
                bad.push(("above-max-ttl".into(), format!("round {r}: ttl {} > max_ttl {}", s.ttl, t.max_ttl)));
            }
            // deliveries handed over before this send (event order = index order in `events`)
            let send_pos = w.events.iter().position(|e| *e == strat::Ev::Send(*idx)).expect("MACHINERY: send event");
            let mut delivered_before: Vec<&strat::DelivRec> = vec![];
            {
                let mut di = 0;
                for e in &w.events[..send_pos] {
                    if let strat::Ev::Recv { delivered: true, .. } = e {
                        delivered_before.push(&w.deliveries[di]);
                        di += 1;
                    }
                }
            }
            let this_round_first: Vec<&&strat::DelivRec> = delivered_before
                .iter()
                .filter(|d| d.round == r && d.first && d.for_send.is_some_and(|f| w.sends[f].round == r))
                .collect();
            // 3. nothing after the target answered in this round
            if this_round_first.iter().any(|d| d.is_target) {
                bad.push(("send-after-target-found".into(), format!("round {r}: probe ttl {} sent after the target had answered in this round", s.ttl)));
            }
            // 4. never above the established target distance (stable topology)
            if t.ecmp.0 > 0 {
                // with branches of different length the path is not stable (clause 4 is not judged);
                // the target's distance is KNOWN from the moment the target answers and UNKNOWN again
                // once a router answers at or beyond that distance - while it is unknown the
                // in-flight window (clause 5) holds as on any path
                let mut known: Option<u8> = None;
                for d in w.deliveries.iter().take(delivered_before.len()) {
                    let Some(f) = d.for_send else { continue };
                    if !d.first || w.sends[f].round != d.round {
                        continue;
                    }
                    let ttl = w.sends[f].ttl;
                    if d.is_target {
                        known = Some(known.map_or(ttl, |k| k.min(ttl)));
                    } else if known.is_some_and(|k| ttl >= k) {
                        known = None;
                    }
                }
                if known.is_none() {
                    let farthest = this_round_first.iter().map(|d| w.sends[d.for_send.unwrap()].ttl).max().unwrap_or(t.first_ttl - 1);
                    if u16::from(s.ttl) > u16::from(farthest) + u16::from(t.max_inflight) {
                        bad.push(("inflight-window:distance-unknown-again".into(), format!("round {r}: ttl {} is more than max_inflight {} beyond the farthest answered hop {farthest}, and the target's distance is unknown (a router answered at or beyond the distance last established)", s.ttl, t.max_inflight)));
                    }
                }
            } else if let Some(d) = dstar_prev {
                // responses of earlier rounds are final; within this round the minimum can only shrink
                let d_now = delivered_before
                    .iter()
                    .filter(|x| x.is_target && x.first && x.for_send.is_some_and(|f| w.sends[f].round == x.round))
                    .map(|x| w.sends[x.for_send.unwrap()].ttl)
                    .min()
                    .unwrap_or(d)
                    .min(d);
                if s.ttl > d_now {
                    bad.push(("above-target-distance".into(), format!("round {r}: ttl {} sent although the target distance {d_now} was established", s.ttl)));
                }
            } else {
                // 5. in-flight window while the distance is unknown
                let farthest = this_round_first
                    .iter()
                    .map(|d| w.sends[d.for_send.unwrap()].ttl)
                    .max()
                    .unwrap_or(t.first_ttl - 1);
                if u16::from(s.ttl) > u16::from(farthest) + u16::from(t.max_inflight) {
                    bad.push(("inflight-window".into(), format!("round {r}: ttl {} is more than max_inflight {} beyond the farthest answered hop {farthest}", s.ttl, t.max_inflight)));
                }
            }
        }
        // update d* with target responses handed over during round r (for probes of round r)
        for d in w.deliveries.iter().filter(|d| d.round == r && d.is_target && d.first) {
            if let Some(f) = d.for_send {
                if w.sends[f].round == r {
                    let tt = w.sends[f].ttl;
                    dstar_prev = Some(dstar_prev.map_or(tt, |x| x.min(tt)));
                }
            }
        }
    }
    bad
}

pub fn task_json(t: &Task) -> Value {
    json!({"proto": format!("{}", t.proto), "first_ttl": t.first_ttl, "max_ttl": t.max_ttl, "max_inflight": t.max_inflight, "target_distance": t.l, "rounds": t.rounds, "latency": t.latency, "ecmp": [t.ecmp.0, t.ecmp.1], "initial_sequence": t.init})
}

pub fn task_from_json(v: &Value) -> Task {
    Task {
        proto: match v["proto"].as_str().unwrap() {
            "icmp" => Protocol::Icmp,
            "udp" => Protocol::Udp,
            _ => Protocol::Tcp,
        },
        first_ttl: v["first_ttl"].as_u64().unwrap() as u8,
        max_ttl: v["max_ttl"].as_u64().unwrap() as u8,
        max_inflight: v["max_inflight"].as_u64().unwrap() as u8,
        l: v["target_distance"].as_u64().unwrap() as u8,
        rounds: v["rounds"].as_u64().unwrap() as usize,
        bound: 0,
        latency: v["latency"].as_u64().unwrap_or(0) as usize,
        ecmp: (v["ecmp"][0].as_u64().unwrap_or(0) as u8, v["ecmp"][1].as_u64().unwrap_or(0) as u8),
        init: v["initial_sequence"].as_u64().map_or(33434, |x| x as u16),
    }
}

fn digest(o: &SOutcome) -> u64 {
    let v: Vec<(usize, u8, u16, u8)> = o
        .world
        .sends
        .iter()
        .map(|s| (s.round, s.ttl, s.seq, match s.outcome { SendOutcome::Ok => 0, SendOutcome::AddrInUse => 1, SendOutcome::Failed => 2 }))
        .collect();
    let p: Vec<(u64, u8)> = o.world.publishes.iter().map(|p| (p.time_ns, p.largest_ttl)).collect();
    mc::hash64(&(v, p))
}

pub fn run(args: &Args) -> i32 {
    if let Some(path) = &args.replay {
        return replay(path);
    }
    let tier = args.tier;
    let mut rep = Report::new("C06", tier, "model_checking");
    let bound = if tier == Tier::Thorough { 4 } else { 3 };
    let mut tasks = vec![];
    for proto in [Protocol::Icmp, Protocol::Tcp] {
        for first_ttl in [1u8, 2, 5, 30, 253, 254] {
            for max_ttl in [1u8, 3, 6, 64, 254] {
                if max_ttl < first_ttl {
                    continue;
                }
                for max_inflight in [1u8, 2, 3, 24, 255] {
                    for l in [1u8, 2, 3, 6, 0] {
                        // the full bound on short ttl ranges, one less on long ones
                        let big = u16::from(max_ttl - first_ttl) > 5 || (u16::from(max_ttl - first_ttl) > 2 && max_inflight > 3);
                        for latency in [0usize, 2] {
                            tasks.push(Task { proto, first_ttl, max_ttl, max_inflight, l, rounds: 3, bound: if big { bound - 1 } else { bound }, latency, ecmp: (0, 0), init: 33434 });
                            // equal-cost branches of different length: the path is not stable, every
                            // other clause still holds (in particular: nothing is sent after the
                            // target has answered in the round)
                            if l >= 2 && latency == 2 && max_inflight >= 2 && max_ttl > l {
                                for ecmp in [(1u8, 0u8), (1, 1), (2, 0), (2, 1)] {
                                    tasks.push(Task { proto, first_ttl, max_ttl, max_inflight, l, rounds: 2, bound: if big { bound - 1 } else { bound.min(3) }, latency, ecmp, init: 33434 });
                                }
                            }
                        }
                    }
                }
            }
        }
    }
    // long runs across the restart of the sequence space (what a round resets must also be reset in
    // the round that restarts the numbering): from the highest initial sequence, 6 probes per round
    // to a silent target (restart after 86 rounds) and 3 per round to an answering one (171 rounds)
    for proto in [Protocol::Icmp, Protocol::Tcp] {
        for (l, max_ttl, rounds) in [(0u8, 6u8, 100usize), (3, 6, 190)] {
            // (one deviation anywhere in the run: two would be ~10^7 executions of 600 sends per task;
            // thorough varies the in-flight window instead)
            for latency in [0usize, 2] {
                for max_inflight in if tier == Tier::Thorough { vec![2u8, 24, 255] } else { vec![24u8] } {
                    tasks.push(Task { proto, first_ttl: 1, max_ttl, max_inflight, l, rounds, bound: 1, latency, ecmp: (0, 0), init: 64511 });
                }
            }
        }
    }
    let agg = Mutex::new((mc::ExploreStats::default(), 0u64, 0u64, vec![]));
    let findings: Mutex<BTreeMap<String, Finding>> = Mutex::new(BTreeMap::new());
    mc::par_for(tasks.len(), mc::workers(), |ti| {
        let t = &tasks[ti];
        let mut digests = HashSet::new();
        let mut local: BTreeMap<String, Finding> = BTreeMap::new();
        let mut first = true;
        let mut replays = 0u64;
        let mut sample = None;
        let stats = mc::explore(t.bound, if t.init == 33434 { 300 } else { 6000 }, &mut |ch| {
            let c = std::mem::replace(ch, Chooser::new(&[], 0));
            let o = strat::run_strategy(scfg(t), c);
            *ch = o.world.chooser.clone();
            let bad = monitor(t, &o);
            let dg = digest(&o);
            digests.insert(dg);
            if first || !bad.is_empty() {
                let o2 = strat::run_strategy(scfg(t), Chooser::new(&ch.choices, 6000));
                assert!(digest(&o2) == dg, "MACHINERY: nondeterministic replay (C06)");
                replays += 1;
                if first && ti % 61 == 0 {
                    sample = Some(json!({"task": task_json(t), "choices": ch.choices, "sends": o.world.sends.iter().map(|s| json!([s.round, s.ttl, s.seq])).collect::<Vec<_>>() }));
                }
                first = false;
            }
            for (k, d) in bad {
                let key = format!("{k}@{}", t.proto);
                let f = Finding { key: key.clone(), detail: format!("[{}] {d}", task_json(t)), replay: json!({"check":"C06","task":task_json(t),"choices":ch.choices}), weight: (ch.deviations(), ch.choices.len() + usize::from(t.max_ttl)), count: 1 };
                match local.get_mut(&key) {
                    Some(o) => {
                        o.count += 1;
                        if f.weight < o.weight {
                            let c = o.count;
                            *o = f;
                            o.count = c;
                        }
                    }
                    None => {
                        local.insert(key, f);
                    }
                }
            }
            local.values().map(|f| f.count).sum::<u64>() < 200
        });
        let mut a = agg.lock().unwrap();
        a.0.merge(&stats);
        a.1 += digests.len() as u64;
        a.2 += replays;
        if let Some(s) = sample {
            if a.3.len() < 3 {
                a.3.push(s);
            }
        }
        drop(a);
        let mut g = findings.lock().unwrap();
        for (k, f) in local {
            match g.get_mut(&k) {
                Some(o) => {
                    o.count += f.count;
                    if f.weight < o.weight {
                        let c = o.count;
                        *o = f;
                        o.count = c;
                    }
                }
                None => {
                    g.insert(k, f);
                }
            }
        }
    });
    let (stats, digests, replays, samples) = agg.into_inner().unwrap();
    rep.merge_findings(findings.into_inner().unwrap());
    rep.set("states", json!(stats.states));
    rep.set("transitions", json!(stats.transitions));
    rep.set("traces_validated_against_impl", json!(stats.executions));
    rep.set("evaluations", json!(stats.executions));
    rep.set("distinct_nontrivial", json!(digests));
    rep.set("executions_by_deviations", json!(stats.executions_by_dev));
    rep.set("tasks", json!(tasks.len()));
    rep.set("bound_completed", json!(bound));
    rep.set("horizon_hits", json!(stats.horizon_hits));
    rep.set("determinism_replays", json!(replays));
    rep.set("rule", json!(format!("protocol {{icmp,tcp}} x first_ttl {{1,2,5,30,253,254}} x max_ttl {{1,3,6,64,254}} x max_inflight {{1,2,3,24,255}} x target distance {{1,2,3,6,silent}} x response latency {{0, 2 receive calls}} (+ equal-cost branches of different length for distances >= 2; + long runs from initial sequence 64511 across the restart of the sequence space: 100 rounds x 6 probes to a silent target, 190 rounds x 3 probes to an answering one, <= 1 deviation (thorough: x max_inflight {{2,24,255}})), 3 rounds: all executions of the real Strategy::run with <= {bound} deviations (delay, reorder, duplicate, loss at recv_probe; AddressInUse at send_probe for tcp, transient ProbeFailed at any send_probe); monitor on the send/receive call trace; states = nodes of the choice tree; distinct_nontrivial = distinct (send trace, publish times) digests")));
    for s in samples {
        rep.sample(s);
    }
    rep.assumptions = vec!["abstract Network: a response is a `Response` value naming the probe's sequence (packets are C01/C02's topic)".into(), "virtual clock via clock_gettime interposition".into()];
    rep.finish()
}

pub fn replay(path: &str) -> i32 {
    let s = std::fs::read_to_string(path).expect("MACHINERY: cannot read replay file");
    let v: Value = serde_json::from_str(&s).expect("MACHINERY: replay JSON");
    let r = if v.get("replay").is_some() { &v["replay"] } else { &v };
    let t = task_from_json(&r["task"]);
    let choices: Vec<u16> = r["choices"].as_array().unwrap().iter().map(|c| c.as_u64().unwrap() as u16).collect();
    let o = strat::run_strategy(scfg(&t), Chooser::new(&choices, 100_000));
    println!("replay C06 task={} choices={choices:?}", task_json(&t));
    for e in &o.world.events {
        match e {
            strat::Ev::Send(i) => {
                let s = &o.world.sends[*i];
                println!("  send round={} ttl={} seq={} outcome={:?} t={}", s.round, s.ttl, s.seq, s.outcome, s.time_ns);
            }
            strat::Ev::Recv { time_ns, delivered } => println!("  recv delivered={delivered} t={time_ns}"),
            strat::Ev::Publish(i) => println!("  publish round {i} largest_ttl={} reason={:?}", o.world.publishes[*i].largest_ttl, o.world.publishes[*i].reason),
        }
    }
    println!("result: {:?}", o.result);
    let bad = monitor(&t, &o);
    for (k, d) in &bad {
        println!("DISCREPANCY {k}: {d}");
    }
    if bad.is_empty() {
        println!("replay: property held");
        0
    } else {
        println!("VIOLATION property=C06 replay={path}");
        1
    }
}
