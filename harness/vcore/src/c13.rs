//! C13 — internet checksums verify, including the Paris checksum swap.  Exhaustive sweeps.

use crate::drive::{self, Cell, Ports, TraceParams};
use crate::mc::{self, Chooser};
use crate::report::{Args, Finding, Report, Tier};
use crate::simnet::{self, Menu, Proto, Target};
use crate::wire;
use serde_json::json;
use std::collections::BTreeMap;
use std::net::{Ipv4Addr, Ipv6Addr};
use std::sync::Mutex;
use trippy_core::verif::Network;
use trippy_core::MultipathStrategy;
use trippy_packet::checksum as ck;

#[derive(Clone, Copy)]
enum F {
    Ipv4Header,
    Icmp4,
    Icmp6,
    Udp4,
    Tcp4,
    Udp6,
}

impl F {
    fn name(self) -> &'static str {
        match self {
            F::Ipv4Header => "ipv4_header_checksum",
            F::Icmp4 => "icmp_ipv4_checksum",
            F::Icmp6 => "icmp_ipv6_checksum",
            F::Udp4 => "udp_ipv4_checksum",
            F::Tcp4 => "tcp_ipv4_checksum",
            F::Udp6 => "udp_ipv6_checksum",
        }
    }
    /// (minimum message length, offset of the checksum field, protocol number, is v6, has pseudo header)
    fn meta(self) -> (usize, usize, u8, bool, bool) {
        match self {
            F::Ipv4Header => (20, 10, 0, false, false),
            F::Icmp4 => (8, 2, 1, false, false),
            F::Icmp6 => (8, 2, 58, true, true),
            F::Udp4 => (8, 6, 17, false, true),
            F::Tcp4 => (20, 16, 6, false, true),
            F::Udp6 => (8, 6, 17, true, true),
        }
    }
    fn call(self, data: &[u8], a4: (Ipv4Addr, Ipv4Addr), a6: (Ipv6Addr, Ipv6Addr)) -> u16 {
        match self {
            F::Ipv4Header => ck::ipv4_header_checksum(data),
            F::Icmp4 => ck::icmp_ipv4_checksum(data),
            F::Icmp6 => ck::icmp_ipv6_checksum(data, a6.0, a6.1),
            F::Udp4 => ck::udp_ipv4_checksum(data, a4.0, a4.1),
            F::Tcp4 => ck::tcp_ipv4_checksum(data, a4.0, a4.1),
            F::Udp6 => ck::udp_ipv6_checksum(data, a6.0, a6.1),
        }
    }
}

fn reference(f: F, data: &[u8], a4: (Ipv4Addr, Ipv4Addr), a6: (Ipv6Addr, Ipv6Addr)) -> (u16, u64) {
    let (_, off, proto, v6, pseudo) = f.meta();
    let mut d = data.to_vec();
    d[off] = 0;
    d[off + 1] = 0;
    let ps = if !pseudo {
        0
    } else if v6 {
        wire::pseudo_v6(a6.0, a6.1, proto, d.len())
    } else {
        wire::pseudo_v4(a4.0, a4.1, proto, d.len())
    };
    (wire::cksum(&d, ps), ps)
}

pub fn replay(path: &str) -> i32 {
    let s = std::fs::read_to_string(path).expect("MACHINERY: cannot read replay file");
    let v: serde_json::Value = serde_json::from_str(&s).expect("MACHINERY: replay JSON");
    let r = if v.get("replay").is_some() { &v["replay"] } else { &v };
    let addr4 = [
        (Ipv4Addr::new(0, 0, 0, 0), Ipv4Addr::new(0, 0, 0, 0)),
        (Ipv4Addr::new(255, 255, 255, 255), Ipv4Addr::new(255, 255, 255, 255)),
        (Ipv4Addr::new(192, 168, 1, 21), Ipv4Addr::new(142, 250, 204, 142)),
    ];
    let addr6: [(Ipv6Addr, Ipv6Addr); 3] = [
        (Ipv6Addr::UNSPECIFIED, Ipv6Addr::UNSPECIFIED),
        (Ipv6Addr::from(u128::MAX), Ipv6Addr::from(u128::MAX)),
        ("2a00:23c7:b8a1:7a01:c4f:6e2f:b2f9:87d8".parse().unwrap(), "2a00:1450:4009:81f::200e".parse().unwrap()),
    ];
    if let Some(name) = r.get("function").and_then(|x| x.as_str()) {
        let f = [F::Ipv4Header, F::Icmp4, F::Icmp6, F::Udp4, F::Tcp4, F::Udp6].into_iter().find(|f| f.name() == name).expect("MACHINERY: function");
        let len = r["len"].as_u64().unwrap() as usize;
        let (_, off, ..) = f.meta();
        let (data, ai): (Vec<u8>, usize) = match r.get("data").and_then(|d| d.as_array()) {
            Some(d) => (d.iter().map(|b| b.as_u64().unwrap() as u8).collect(), r["addr_pair"].as_u64().unwrap_or(2) as usize),
            None => {
                let mut c = vec![0x11u8; len];
                c[off + 2..off + 4].copy_from_slice(&(r["adjacent"].as_u64().unwrap() as u16).to_be_bytes());
                (c, 2)
            }
        };
        let (want, ps) = reference(f, &data, addr4[ai], addr6[ai]);
        let got = f.call(&data, addr4[ai], addr6[ai]);
        let mut d = data.clone();
        d[off..off + 2].copy_from_slice(&got.to_be_bytes());
        println!("{name}({} octets) = {got:#06x}; RFC 1071 reference {want:#06x}; verifies after insertion: {}", data.len(), wire::verifies(&d, ps));
        if got == want && wire::verifies(&d, ps) {
            println!("replay: property held");
            return 0;
        }
        println!("VIOLATION property=C13 replay={path}");
        return 1;
    }
    // Paris dispatch
    let name = r["cell"].as_str().unwrap();
    let cell = drive::all_cells().into_iter().find(|c| c.name() == name).expect("MACHINERY: cell");
    let seq = r["sequence"].as_u64().unwrap() as u16;
    let p = TraceParams { packet_size: if cell.v6 { 96 } else { 84 }, ..TraceParams::default() };
    let net = drive::net_cfg(&cell, &p, drive::topo_linear(&cell, 1, Target::Silent), Menu::default());
    simnet::install(net, Chooser::new(&[], 0));
    let ok = {
        let mut ch = drive::make_channel(&cell, &p).expect("MACHINERY: channel connect");
        let _ = ch.send_probe(drive::make_probe(&cell, &p, seq, 5, 0));
        simnet::with(|w| {
            let s = w.sent.last().expect("MACHINERY: nothing sent");
            let l4 = &s.wire[s.l4off..];
            let u = wire::parse_udp(l4).unwrap();
            let ps = wire::pseudo(cell.src(), cell.dst(), wire::PROTO_UDP, l4.len());
            println!("Paris sequence {seq}: UDP checksum field {:#06x}, verifies {}; datagram {}", u.cksum, wire::verifies(l4, ps), l4.iter().map(|b| format!("{b:02x}")).collect::<String>());
            u.cksum == seq && wire::verifies(l4, ps)
        })
    };
    let _ = simnet::take();
    if ok {
        println!("replay: property held");
        0
    } else {
        println!("VIOLATION property=C13 replay={path}");
        1
    }
}

pub fn run(args: &Args) -> i32 {
    if let Some(path) = &args.replay {
        return replay(path);
    }
    let tier = args.tier;
    let mut rep = Report::new("C13", tier, "exploration");
    let findings: Mutex<BTreeMap<String, Finding>> = Mutex::new(BTreeMap::new());
    let evals = Mutex::new((0u64, 0u64));
    let addr4 = [
        (Ipv4Addr::new(0, 0, 0, 0), Ipv4Addr::new(0, 0, 0, 0)),
        (Ipv4Addr::new(255, 255, 255, 255), Ipv4Addr::new(255, 255, 255, 255)),
        (Ipv4Addr::new(192, 168, 1, 21), Ipv4Addr::new(142, 250, 204, 142)),
    ];
    let addr6 = [
        (Ipv6Addr::UNSPECIFIED, Ipv6Addr::UNSPECIFIED),
        (Ipv6Addr::from(u128::MAX), Ipv6Addr::from(u128::MAX)),
        ("2a00:23c7:b8a1:7a01:c4f:6e2f:b2f9:87d8".parse().unwrap(), "2a00:1450:4009:81f::200e".parse().unwrap()),
    ];
    let funcs = [F::Ipv4Header, F::Icmp4, F::Icmp6, F::Udp4, F::Tcp4, F::Udp6];
    let max_len = 1024usize;
    // Part A: tasks = function x length
    let tasks: Vec<(F, usize)> = funcs
        .iter()
        .flat_map(|f| {
            let (min, ..) = f.meta();
            let hi = if matches!(f, F::Ipv4Header) { 60 } else { max_len };
            (min..=hi).map(move |l| (*f, l))
        })
        .collect();
    mc::par_for(tasks.len(), mc::workers(), |ti| {
        let (f, len) = tasks[ti];
        let (_, off, ..) = f.meta();
        let mut n = 0u64;
        let mut nontrivial = 0u64;
        let mut local: Vec<Finding> = vec![];
        let mut contents: Vec<Vec<u8>> = vec![
            vec![0u8; len],
            vec![0xffu8; len],
            (0..len).map(|i| (i * 7 + 3) as u8).collect(),
            (0..len).map(|i| if i % 2 == 0 { 0xff } else { 0x00 }).collect(),
        ];
        // each single 0xFF byte position
        let step = if tier == Tier::Quick && len > 128 { 7 } else { 1 };
        for pos in (0..len).step_by(step) {
            let mut v = vec![0u8; len];
            v[pos] = 0xff;
            contents.push(v);
        }
        // junk in the checksum field must be ignored
        for junk in [0x0000u16, 0xffff, 0x1234, 0x8001] {
            let mut v: Vec<u8> = (0..len).map(|i| (i * 13 + 1) as u8).collect();
            v[off..off + 2].copy_from_slice(&junk.to_be_bytes());
            contents.push(v);
        }
        for c in &contents {
            for ai in 0..3 {
                let (a4, a6) = (addr4[ai], addr6[ai]);
                let (want, ps) = reference(f, c, a4, a6);
                n += 1;
                if c.iter().any(|b| *b != 0) {
                    nontrivial += 1;
                }
                let got = mc::catch(|| f.call(c, a4, a6));
                let problem = match got {
                    Err(p) => Some((p.key(), p.message)),
                    Ok(g) if g != want => Some((format!("wrong-checksum:{}", f.name()), format!("{}(len {len}) = {g:#06x}, RFC 1071 reference {want:#06x}", f.name()))),
                    Ok(g) => {
                        let mut d = c.clone();
                        d[off..off + 2].copy_from_slice(&g.to_be_bytes());
                        if wire::verifies(&d, ps) {
                            None
                        } else {
                            Some((format!("does-not-verify:{}", f.name()), format!("{} len {len}: datagram with checksum inserted does not fold to 0xFFFF", f.name())))
                        }
                    }
                };
                if let Some((key, detail)) = problem {
                    if local.len() < 4 {
                        local.push(Finding { key, detail, replay: json!({"check":"C13","function":f.name(),"len":len,"data":c,"addr_pair":ai}), weight: (0, len), count: 1 });
                    }
                }
            }
        }
        // all 2^16 values of the two bytes adjacent to (after) the skipped word, at a few lengths
        if len == off + 4 || len == off + 5 || (tier == Tier::Thorough && len == 64) {
            for v in 0..=u16::MAX {
                let mut c = vec![0x11u8; len];
                c[off + 2..off + 4].copy_from_slice(&v.to_be_bytes());
                let (want, _) = reference(f, &c, addr4[2], addr6[2]);
                n += 1;
                nontrivial += 1;
                if let Ok(g) = mc::catch(|| f.call(&c, addr4[2], addr6[2])) {
                    if g != want && local.len() < 4 {
                        local.push(Finding { key: format!("wrong-checksum:{}", f.name()), detail: format!("{} adjacent word {v:#06x}: {g:#06x} vs {want:#06x}", f.name()), replay: json!({"check":"C13","function":f.name(),"len":len,"adjacent":v}), weight: (0, len), count: 1 });
                    }
                }
            }
        }
        let mut e = evals.lock().unwrap();
        e.0 += n;
        e.1 += nontrivial;
        drop(e);
        let mut g = findings.lock().unwrap();
        for f2 in local {
            let e = g.entry(f2.key.clone()).or_insert_with(|| Finding { count: 0, ..f2.clone() });
            e.count += 1;
            if f2.weight < e.weight {
                let c = e.count;
                *e = f2;
                e.count = c;
            }
        }
    });

    // Part B: Paris probes through the real dispatch code: checksum field == sequence and the
    // datagram still verifies.  All 2^16 sequences x 2 families x 3 port pairs.
    let mut paris_cells: Vec<Cell> = vec![];
    for v6 in [false, true] {
        for ports in [Ports::FixedSrc, Ports::FixedDest, Ports::FixedBoth] {
            paris_cells.push(Cell { proto: Proto::Udp, v6, strategy: MultipathStrategy::Paris, ports, privileged: true, ext: false });
        }
    }
    let paris_n = Mutex::new(0u64);
    let chunks: Vec<(usize, u32)> = (0..paris_cells.len()).flat_map(|c| (0..16u32).map(move |k| (c, k))).collect();
    mc::par_for(chunks.len(), mc::workers(), |ci| {
        let (c, k) = chunks[ci];
        let cell = paris_cells[c];
        let p = TraceParams { packet_size: if cell.v6 { 96 } else { 84 }, ..TraceParams::default() };
        let topo = drive::topo_linear(&cell, 1, Target::Silent);
        let net = drive::net_cfg(&cell, &p, topo, Menu::default());
        simnet::install(net, Chooser::new(&[], 0));
        let mut ch = drive::make_channel(&cell, &p).expect("MACHINERY: channel connect");
        let mut n = 0u64;
        let mut local: Vec<Finding> = vec![];
        for s in (k * 4096)..((k + 1) * 4096) {
            let seq = s as u16;
            let probe = drive::make_probe(&cell, &p, seq, 5, (s % 3) as usize);
            let before = simnet::with(|w| w.sent.len());
            let r = mc::catch(|| ch.send_probe(probe));
            n += 1;
            let problem = match r {
                Err(pn) => Some((pn.key(), pn.message)),
                Ok(Err(e)) => Some(("paris-send-error".to_string(), format!("{e:?}"))),
                Ok(Ok(())) => simnet::with(|w| {
                    if w.sent.len() != before + 1 {
                        return Some(("paris-no-datagram".to_string(), format!("seq {seq}: {} datagrams", w.sent.len() - before)));
                    }
                    let s = w.sent.last().unwrap();
                    let l4 = &s.wire[s.l4off..];
                    let u = wire::parse_udp(l4).expect("MACHINERY: udp parse");
                    let ps = wire::pseudo(cell.src(), cell.dst(), wire::PROTO_UDP, l4.len());
                    if u.cksum != seq {
                        Some(("paris-checksum-not-sequence".to_string(), format!("seq {seq}: UDP checksum field {:#06x}", u.cksum)))
                    } else if !wire::verifies(l4, ps) {
                        Some(("paris-does-not-verify".to_string(), format!("seq {seq}: UDP datagram does not verify against the pseudo header")))
                    } else if usize::from(u.len) != l4.len() {
                        Some(("paris-length".to_string(), format!("seq {seq}: UDP length {} but {} octets", u.len, l4.len())))
                    } else {
                        None
                    }
                }),
            };
            simnet::with(|w| {
                w.sent.clear();
                w.attempts.clear();
                w.resps.clear();
            });
            if let Some((key, detail)) = problem {
                if local.len() < 3 {
                    local.push(Finding { key: format!("{key}@{}", cell.name()), detail, replay: json!({"check":"C13","cell":cell.name(),"sequence":seq}), weight: (0, 0), count: 1 });
                }
            }
        }
        drop(ch);
        let _ = simnet::take();
        *paris_n.lock().unwrap() += n;
        let mut g = findings.lock().unwrap();
        for f2 in local {
            g.entry(f2.key.clone()).or_insert(f2).count += 1;
        }
    });
    // Part C: every checksum the dispatch code puts on the wire (ICMP echo request, UDP classic /
    // Paris / Dublin, IPv4 header), over packet sizes x payload patterns x sequences, decoded by the
    // independent codec: the L4 message must verify against the (pseudo) header actually sent.
    let wire_cells: Vec<Cell> = drive::all_cells().into_iter().filter(|c| c.privileged && !c.ext && c.proto != Proto::Tcp).collect();
    let sizes_v4 = [28u16, 29, 30, 31, 48, 63, 64, 65, 84, 255, 256, 1023, 1024];
    let sizes_v6 = [48u16, 49, 50, 51, 63, 64, 65, 96, 255, 256, 1023, 1024];
    let patterns: Vec<u8> = (0..=255).collect();
    let wtasks: Vec<(usize, u16, u8)> = (0..wire_cells.len())
        .flat_map(|c| {
            let sizes: Vec<u16> = if wire_cells[c].v6 { sizes_v6.to_vec() } else { sizes_v4.to_vec() };
            let patterns = patterns.clone();
            sizes.into_iter().flat_map(move |sz| patterns.clone().into_iter().map(move |pt| (c, sz, pt)))
        })
        .collect();
    let wire_n = Mutex::new(0u64);
    mc::par_for(wtasks.len(), mc::workers(), |wi| {
        let (c, size, pattern) = wtasks[wi];
        let cell = wire_cells[c];
        let p = TraceParams { packet_size: size, pattern, ..TraceParams::default() };
        let topo = drive::topo_linear(&cell, 1, Target::Silent);
        let net = drive::net_cfg(&cell, &p, topo, Menu::default());
        simnet::install(net, Chooser::new(&[], 0));
        let mut local: Vec<Finding> = vec![];
        let mut n = 0u64;
        if let Ok(mut ch) = drive::make_channel(&cell, &p) {
            let dublin6 = cell.v6 && cell.strategy == MultipathStrategy::Dublin;
            let seqs: Vec<u16> = if dublin6 { vec![33434, 33435, 33441, 33434 + 255, 33434 + 700] } else { vec![0, 1, 2, 255, 256, 33434, 33435, 40000, 0x7fff, 0x8000, 0xfffe, 0xffff] };
            for (i, seq) in seqs.into_iter().enumerate() {
                let probe = drive::make_probe(&cell, &p, seq, 1 + (i as u8 % 30), i % 3);
                let before = simnet::with(|w| w.sent.len());
                let r = mc::catch(|| ch.send_probe(probe));
                n += 1;
                let problem: Option<(String, String)> = match r {
                    Err(pn) => Some((pn.key(), pn.message)),
                    // a size the dispatch code refuses for this configuration is not a datagram
                    Ok(Err(_)) => None,
                    Ok(Ok(())) => simnet::with(|w| {
                        if w.sent.len() != before + 1 {
                            return None;
                        }
                        let s = w.sent.last().unwrap();
                        let l4 = &s.wire[s.l4off..];
                        let proto = match (cell.proto, cell.v6) {
                            (Proto::Icmp, false) => None,
                            (Proto::Icmp, true) => Some(wire::PROTO_ICMPV6),
                            _ => Some(wire::PROTO_UDP),
                        };
                        let ps = proto.map_or(0, |pr| wire::pseudo(cell.src(), cell.dst(), pr, l4.len()));
                        if !wire::verifies(l4, ps) {
                            return Some((format!("wire-checksum-does-not-verify:{}", if cell.proto == Proto::Icmp { "icmp" } else { "udp" }), format!("size {size} pattern {pattern:#04x} seq {seq}: the {}-octet message does not fold to 0xFFFF", l4.len())));
                        }
                        if !cell.v6 && !wire::verifies(&s.wire[..s.l4off], 0) {
                            return Some(("wire-checksum-does-not-verify:ipv4-header".to_string(), format!("size {size} seq {seq}: IPv4 header checksum")));
                        }
                        None
                    }),
                };
                simnet::with(|w| {
                    w.sent.clear();
                    w.attempts.clear();
                    w.resps.clear();
                });
                if let Some((key, detail)) = problem {
                    if local.len() < 3 {
                        local.push(Finding { key: format!("{key}@{}", cell.name()), detail, replay: json!({"check":"C13","part":"wire","cell":cell.name(),"cell_index":crate::c01::cell_index(&cell),"size":size,"pattern":pattern,"sequence":seq}), weight: (0, usize::from(size)), count: 1 });
                    }
                }
            }
            drop(ch);
        }
        let _ = simnet::take();
        *wire_n.lock().unwrap() += n;
        let mut g = findings.lock().unwrap();
        for f2 in local {
            g.entry(f2.key.clone()).or_insert(f2).count += 1;
        }
    });
    let wn = *wire_n.lock().unwrap();
    rep.set("wire_level_dispatches", json!(wn));
    let (n, nontrivial) = *evals.lock().unwrap();
    let pn = *paris_n.lock().unwrap() + wn;
    rep.merge_findings(findings.into_inner().unwrap());
    rep.set("evaluations", json!(n + pn));
    rep.set("distinct_nontrivial", json!(nontrivial + pn));
    rep.set("paris_dispatches", json!(pn));
    rep.set("rule", json!("6 public checksum functions x every message length header..1024 (IPv4 header: 20..60) x contents {zeros, 0xFF, ramp, alternating, each single-0xFF position, junk in the checksum field} x 3 address pairs, plus all 2^16 values of the word after the skipped one; reference: 64-bit accumulate-then-fold from RFC 1071; then checksum inserted must fold to 0xFFFF. Paris: all 2^16 sequences x {v4,v6} x {fixed src, fixed dest, fixed both} through the real Channel dispatch, decoded by the independent codec. Wire level: every privileged ICMP/UDP cell x 12-13 packet sizes (odd/even, min..1024) x all 256 payload patterns x 12 sequences through the real Channel dispatch: the emitted L4 message (and the IPv4 header, where the kernel model does not rewrite it) must verify. Non-trivial = content not all zero"));
    rep.sample(json!({"function": "udp_ipv4_checksum", "len": 9, "content": "single 0xFF at position 8", "addresses": "192.168.1.21 -> 142.250.204.142"}));
    rep.sample(json!({"paris": "udp/v6/paris/fixedboth", "sequence": 65535, "expect": "UDP checksum field 0xffff, datagram verifies"}));
    rep.assumptions = vec!["domain: whole ICMP/UDP/TCP messages (>= header size), DESIGN.md 5.10".into()];
    rep.finish()
}
