//! Verdicts, evidence files, replay artefacts and the known-findings list.

use serde_json::{json, Map, Value};
use std::collections::BTreeMap;
use std::path::PathBuf;
use std::time::Instant;

pub fn verif_root() -> PathBuf {
    std::env::var("VERIF_ROOT").map_or_else(|_| PathBuf::from("/verif"), PathBuf::from)
}

/// The repository the harness was built against (/repo unless the tooling built a scratch copy).
pub fn repo_root() -> String {
    std::env::var("VERIF_REPO").unwrap_or_else(|_| "/repo".to_string())
}

#[derive(Debug, Clone, Copy, PartialEq, Eq)]
pub enum Tier {
    Quick,
    Thorough,
}

impl Tier {
    pub fn name(self) -> &'static str {
        match self {
            Tier::Quick => "quick",
            Tier::Thorough => "thorough",
        }
    }
    pub fn is_quick(self) -> bool {
        self == Tier::Quick
    }
}

#[derive(Debug, Clone)]
pub struct Finding {
    /// Stable identity of the failure (no line numbers); compared with known_findings.json.
    pub key: String,
    pub detail: String,
    /// Everything needed to re-execute the failing case without the explorer.
    pub replay: Value,
    /// Smaller is better when several cases share a key (deviations, then length).
    pub weight: (usize, usize),
    pub count: u64,
}

pub struct Report {
    pub property: String,
    pub tier: Tier,
    pub level: &'static str,
    pub seed: u64,
    start: Instant,
    pub findings: BTreeMap<String, Finding>,
    pub coverage: Map<String, Value>,
    pub assumptions: Vec<String>,
    pub samples: Vec<Value>,
    pub observations: Map<String, Value>,
    pub exhaustive: bool,
    pub cap_hit: Option<String>,
}

impl Report {
    pub fn new(property: &str, tier: Tier, level: &'static str) -> Self {
        let seed = std::env::var("VERIF_SEED")
            .ok()
            .and_then(|s| s.parse().ok())
            .unwrap_or(0);
        Self {
            property: property.to_string(),
            tier,
            level,
            seed,
            start: Instant::now(),
            findings: BTreeMap::new(),
            coverage: Map::new(),
            assumptions: vec![],
            samples: vec![],
            observations: Map::new(),
            exhaustive: true,
            cap_hit: None,
        }
    }

    pub fn elapsed_s(&self) -> f64 {
        self.start.elapsed().as_secs_f64()
    }

    pub fn add_finding(&mut self, f: Finding) {
        match self.findings.get_mut(&f.key) {
            Some(old) => {
                old.count += f.count.max(1);
                if f.weight < old.weight {
                    let c = old.count;
                    *old = f;
                    old.count = c;
                }
            }
            None => {
                let mut f = f;
                f.count = f.count.max(1);
                self.findings.insert(f.key.clone(), f);
            }
        }
    }

    pub fn merge_findings(&mut self, other: BTreeMap<String, Finding>) {
        for (_, f) in other {
            self.add_finding(f);
        }
    }

    pub fn set(&mut self, k: &str, v: Value) {
        self.coverage.insert(k.to_string(), v);
    }

    pub fn observe(&mut self, k: &str, v: Value) {
        self.observations.insert(k.to_string(), v);
    }

    pub fn sample(&mut self, v: Value) {
        if self.samples.len() < 6 {
            self.samples.push(v);
        }
    }

    /// Write evidence and replays, print verdict lines, return the process exit code.
    pub fn finish(mut self) -> i32 {
        let root = verif_root();
        let known = load_known(&root);
        let mut unlisted = 0;
        let mut lines = vec![];
        let replay_dir = root.join("replays");
        let _ = std::fs::create_dir_all(&replay_dir);
        let mut finding_summaries = vec![];
        for (key, f) in &self.findings {
            let listed = known
                .iter()
                .find(|k| k.property == self.property && k.status == "open" && &k.key == key);
            finding_summaries.push(json!({"key": key, "detail": f.detail, "count": f.count, "known": listed.is_some()}));
            let fname = format!(
                "{}-{:016x}.json",
                self.property,
                crate::mc::hash64(&key.as_str())
            );
            let path = replay_dir.join(&fname);
            let body = json!({
                "property": self.property,
                "key": key,
                "detail": f.detail,
                "occurrences": f.count,
                "replay": f.replay,
            });
            let _ = std::fs::write(&path, serde_json::to_string_pretty(&body).unwrap());
            if let Some(k) = listed {
                lines.push(format!(
                    "KNOWN-FINDING: property={} {} [key={}] replay={}",
                    self.property,
                    k.what,
                    key,
                    path.display()
                ));
            } else {
                unlisted += 1;
                lines.push(format!(
                    "VIOLATION property={} replay={}",
                    self.property,
                    path.display()
                ));
                lines.push(format!("  key: {key}"));
                lines.push(format!("  detail: {}", f.detail));
            }
        }
        if crate::mc::past_soft_deadline() && self.cap_hit.is_none() {
            self.cap_hit = Some("soft wall cap reached: the search loops stopped early".into());
        }
        // evidence
        self.coverage
            .insert("exhaustive".into(), json!(self.exhaustive && self.cap_hit.is_none()));
        if let Some(c) = &self.cap_hit {
            self.coverage.insert("cap_hit".into(), json!(c));
        }
        if self.samples.is_empty() {
            self.samples.push(json!("no sample recorded"));
        }
        self.coverage
            .insert("samples".into(), Value::Array(self.samples.clone()));
        self.coverage
            .insert("observations".into(), Value::Object(self.observations.clone()));
        self.coverage
            .insert("findings".into(), Value::Array(finding_summaries));
        let ev = json!({
            "property_id": self.property,
            "tier": self.tier.name(),
            "seed": self.seed,
            "level": self.level,
            "coverage": Value::Object(self.coverage.clone()),
            "assumptions": self.assumptions,
            "wall_s": self.start.elapsed().as_secs_f64(),
            "violations": unlisted,
        });
        let evdir = root.join("evidence");
        let _ = std::fs::create_dir_all(&evdir);
        let evpath = evdir.join(format!("{}.json", self.property));
        std::fs::write(&evpath, serde_json::to_string_pretty(&ev).unwrap())
            .expect("MACHINERY: cannot write evidence");
        for l in &lines {
            println!("{l}");
        }
        println!(
            "{} {}: {} finding key(s), {} unlisted; wall {:.1}s; evidence {}",
            self.property,
            self.tier.name(),
            self.findings.len(),
            unlisted,
            self.start.elapsed().as_secs_f64(),
            evpath.display()
        );
        if unlisted > 0 {
            1
        } else if crate::mc::past_soft_deadline() {
            eprintln!("MACHINERY: soft wall cap reached without any finding - the exploration is incomplete (not a verdict)");
            2
        } else {
            0
        }
    }
}

#[derive(Debug, Clone)]
pub struct Known {
    pub property: String,
    pub key: String,
    pub status: String,
    pub what: String,
}

pub fn load_known(root: &std::path::Path) -> Vec<Known> {
    let p = root.join("known_findings.json");
    let Ok(s) = std::fs::read_to_string(&p) else {
        return vec![];
    };
    let v: Value = serde_json::from_str(&s).expect("MACHINERY: known_findings.json is not JSON");
    let mut out = vec![];
    if let Some(arr) = v.get("findings").and_then(|a| a.as_array()) {
        for e in arr {
            out.push(Known {
                property: e["property"].as_str().unwrap_or("").to_string(),
                key: e["key"].as_str().unwrap_or("").to_string(),
                status: e["status"].as_str().unwrap_or("").to_string(),
                what: e["what"].as_str().unwrap_or("").to_string(),
            });
        }
    }
    out
}

/// Engine-side wall cap: a run that is still going after the cap (quick: 15 min, thorough: 8 h,
/// `VERIF_WALL_CAP_S` overrides) is a machinery failure (exit 2), never a verdict and never a hang.
pub fn start_watchdog(tier: Tier) {
    let cap = std::env::var("VERIF_WALL_CAP_S").ok().and_then(|s| s.parse::<u64>().ok()).unwrap_or(if tier.is_quick() { 900 } else { 8 * 3600 });
    // soft cap: a third of the hard cap (quick: 5 min) - search loops stop, the run reports what it has
    crate::mc::set_soft_deadline(std::env::var("VERIF_SOFT_CAP_S").ok().and_then(|s| s.parse::<u64>().ok()).unwrap_or(cap / 3));
    std::thread::spawn(move || {
        std::thread::sleep(std::time::Duration::from_secs(cap));
        eprintln!("MACHINERY: wall cap of {cap} s exceeded - the check did not finish (not a verdict)");
        std::process::exit(2);
    });
}

/// Parse `--tier quick|thorough` / `--replay <file>` style arguments (after the property id).
pub struct Args {
    pub tier: Tier,
    pub replay: Option<String>,
    pub extra: Vec<String>,
}

pub fn parse_args(args: &[String]) -> Args {
    let mut tier = match std::env::var("VERIF_TIER").ok().as_deref() {
        Some("thorough") => Tier::Thorough,
        _ => Tier::Quick,
    };
    let mut replay = None;
    let mut extra = vec![];
    let mut i = 0;
    while i < args.len() {
        match args[i].as_str() {
            "--tier" => {
                i += 1;
                tier = match args.get(i).map(String::as_str) {
                    Some("thorough") => Tier::Thorough,
                    Some("quick") => Tier::Quick,
                    other => panic!("MACHINERY: bad tier {other:?}"),
                };
            }
            "--replay" => {
                i += 1;
                replay = args.get(i).cloned();
            }
            other => extra.push(other.to_string()),
        }
        i += 1;
    }
    Args {
        tier,
        replay,
        extra,
    }
}
