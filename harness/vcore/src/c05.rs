//! C05 — per-hop statistics equal an independent re-aggregation of the rounds.
//! E3 (explicit-state search over round histories) on the real `State`.

use crate::drive::{self, TraceParams};
use crate::mc::{self, Chooser};
use crate::refstate::{self, RoundRec};
use crate::report::{Args, Finding, Report, Tier};
use crate::simnet::Menu;
use crate::stateexp::{self, Out, Shape};
use serde_json::{json, Value};
use std::collections::BTreeMap;
use std::sync::Mutex;
use trippy_core::verif::StateConfig;
use trippy_core::State;

type Findings = BTreeMap<String, Finding>;

const MS: u64 = 1_000_000;

fn hop_alphabet() -> Vec<Out> {
    vec![
        Out::C(0, 1, None, None),
        Out::C(MS, 1, Some(0x20), None),
        Out::C(3 * MS, 2, None, None),
        Out::C(1_500 * MS, 1, None, None),
        Out::C(MS, 2, Some(0xb8), None),
        Out::A,
        Out::F,
    ]
}

pub fn alphabet(first_ttl: u8, h: usize) -> Vec<Shape> {
    let a = hop_alphabet();
    let mut shapes: Vec<Shape> = vec![];
    let mut idx = vec![0usize; h];
    loop {
        shapes.push(Shape { first_ttl, outs: idx.iter().map(|i| a[*i]).collect(), largest_ttl: None });
        let mut k = 0;
        while k < h {
            idx[k] += 1;
            if idx[k] < a.len() {
                break;
            }
            idx[k] = 0;
            k += 1;
        }
        if k == h {
            break;
        }
    }
    // TCP re-issue filler: an abandoned slot in front of hop 2
    shapes.push(Shape { first_ttl, outs: vec![Out::A, Out::S, Out::A], largest_ttl: None });
    shapes.push(Shape { first_ttl, outs: vec![Out::C(2 * MS, 1, None, None), Out::S, Out::S, Out::C(4 * MS, 2, None, None)], largest_ttl: None });
    shapes.push(Shape { first_ttl, outs: vec![Out::A, Out::S, Out::F], largest_ttl: None });
    // shorter / longer rounds
    shapes.push(Shape { first_ttl, outs: vec![Out::C(5 * MS, 1, None, None)], largest_ttl: None });
    shapes.push(Shape { first_ttl, outs: vec![Out::A, Out::A, Out::A, Out::C(7 * MS, 1, None, None)], largest_ttl: None });
    // UDP probes carry the expected and the quoted checksum (last-probe details: NAT status): a
    // rewriting device at hop 2, a silent hop behind it; a clean path with a silent hop; a device
    // that leaves the checksum at zero
    let k = |e: u16, a: u16| Out::C(2 * MS, 1, None, Some((e, a)));
    shapes.push(Shape { first_ttl, outs: vec![k(1111, 1111), k(1111, 2222), Out::A, k(1111, 2222), k(1111, 2222)], largest_ttl: None });
    shapes.push(Shape { first_ttl, outs: vec![k(1111, 1111), Out::A, k(1111, 1111)], largest_ttl: None });
    shapes.push(Shape { first_ttl, outs: vec![k(1111, 1111), k(1111, 0), k(1111, 0), k(1111, 0)], largest_ttl: None });
    // carried target distance: published with path length 3 although nothing / only hop 1 answered
    shapes.push(Shape { first_ttl, outs: vec![Out::A, Out::A, Out::A], largest_ttl: Some(first_ttl + 2) });
    shapes.push(Shape { first_ttl, outs: vec![Out::C(3 * MS, 1, None, None), Out::A, Out::A], largest_ttl: Some(first_ttl + 2) });
    shapes
}

/// Compare every hop of every flow the state exposes with the reference recomputation.
pub fn oracle(st: &State, hist: &[RoundRec], max_samples: usize) -> Vec<(String, String)> {
    let mut bad = vec![];
    let all: Vec<&RoundRec> = hist.iter().collect();
    let reference = refstate::aggregate(&all);
    let hops = match mc::catch(|| st.hops().to_vec()) {
        Ok(h) => h,
        Err(p) => return vec![(p.key(), p.message)],
    };
    for h in &hops {
        let r = if h.ttl() == 0 { None } else { reference.hops.get(&h.ttl()) };
        match r {
            Some(r) => {
                for (k, d) in refstate::compare_hop(h, r, max_samples) {
                    bad.push((format!("stat:{k}"), format!("hop ttl {}: {d}", h.ttl())));
                }
            }
            None => {
                if h.total_sent() != 0 || h.total_recv() != 0 {
                    bad.push(("stat:phantom-hop".into(), format!("hop {} has counts but was never probed", h.ttl())));
                }
            }
        }
    }
    // the registered flows: the sample limit holds for every hop of every flow, and a flow that
    // was given every round must show exactly what the default flow shows (same reference)
    let flows: Vec<trippy_core::FlowId> = mc::catch(|| st.flows().iter().map(|(_, id)| *id).collect()).unwrap_or_default();
    for id in flows {
        let fh = match mc::catch(|| (st.round_count(id), st.hops_for_flow(id).to_vec())) {
            Ok(x) => x,
            Err(p) => {
                bad.push((format!("{}:flow", p.key()), p.message));
                continue;
            }
        };
        let (rounds, fhops) = fh;
        for h in &fhops {
            if h.samples().len() > max_samples {
                bad.push(("stat:samples-exceed-limit:flow".into(), format!("flow {} hop ttl {}: {} samples kept, limit {max_samples}", id.0, h.ttl(), h.samples().len())));
            }
            if rounds == hist.len() && h.ttl() != 0 {
                if let Some(r) = reference.hops.get(&h.ttl()) {
                    for (k, d) in refstate::compare_hop(h, r, max_samples) {
                        bad.push((format!("stat:{k}:flow"), format!("flow {} (given all {rounds} rounds) hop ttl {}: {d}", id.0, h.ttl())));
                    }
                }
            }
        }
    }
    // every probed hop within the exposed range must be there
    for (ttl, r) in &reference.hops {
        if reference.highest_ttl > 0 && *ttl >= reference.lowest_ttl && *ttl <= reference.highest_ttl && !hops.iter().any(|h| h.ttl() == *ttl) {
            bad.push(("stat:missing-hop".into(), format!("probed hop ttl {ttl} (sent {}) is not in hops()", r.sent)));
        }
    }
    bad
}

/// Validate the reference model against the maintainers' scenario files (machinery error if it
/// cannot reproduce their hand-computed expectations).
fn fixture_self_test() -> usize {
    let dir = format!("{}/crates/trippy-core/tests/resources/state", crate::report::repo_root());
    let dir = dir.as_str();
    let mut n = 0;
    let mut files: Vec<_> = std::fs::read_dir(dir).expect("MACHINERY: scenario dir").filter_map(Result::ok).map(|e| e.path()).collect();
    files.sort();
    for path in files {
        let text = std::fs::read_to_string(&path).unwrap();
        let t: toml::Table = text.parse().unwrap_or_else(|e| panic!("MACHINERY: cannot parse {path:?}: {e}"));
        let largest = t["largest_ttl"].as_integer().unwrap() as u8;
        let mut hist: Vec<RoundRec> = vec![];
        for (ri, r) in t["rounds"].as_array().unwrap().iter().enumerate() {
            let mut outs = vec![];
            let mut ttls = vec![];
            for p in r["probes"].as_array().unwrap() {
                let v: Vec<&str> = p.as_str().unwrap().split_ascii_whitespace().collect();
                let ttl: u8 = v[0].parse().unwrap();
                let o = match v[1].to_ascii_lowercase().as_str() {
                    "n" => Out::N,
                    "s" => Out::S,
                    "a" => Out::A,
                    "c" => Out::C(v[2].parse::<u64>().unwrap() * MS, 0, Some(v[9].parse().unwrap()), Some((v[7].parse().unwrap(), v[8].parse().unwrap()))),
                    other => panic!("MACHINERY: scenario status {other}"),
                };
                outs.push((o, ttl, v[3].to_string(), v[4].parse::<u16>().unwrap(), v[5].parse::<u16>().unwrap(), v[6].parse::<u16>().unwrap()));
                ttls.push(ttl);
            }
            // build probes with the exact ttl/host/seq/ports of the file
            let shape = Shape { first_ttl: 1, outs: outs.iter().map(|o| o.0).collect(), largest_ttl: Some(largest) };
            let mut rec = stateexp::build(&shape, ri, 0);
            for (p, o) in rec.probes.iter_mut().zip(&outs) {
                match p {
                    trippy_core::ProbeStatus::Complete(c) => {
                        c.ttl = trippy_core::TimeToLive(o.1);
                        c.host = o.2.parse().unwrap();
                        c.sequence = trippy_core::Sequence(o.3);
                        c.src_port = trippy_core::Port(o.4);
                        c.dest_port = trippy_core::Port(o.5);
                        c.icmp_packet_type = trippy_core::IcmpPacketType::NotApplicable;
                    }
                    trippy_core::ProbeStatus::Awaited(a) => {
                        a.ttl = trippy_core::TimeToLive(o.1);
                        a.sequence = trippy_core::Sequence(o.3);
                        a.src_port = trippy_core::Port(o.4);
                        a.dest_port = trippy_core::Port(o.5);
                    }
                    _ => {}
                }
            }
            hist.push(rec);
        }
        let all: Vec<&RoundRec> = hist.iter().collect();
        let reference = refstate::aggregate(&all);
        for (hi, e) in t["expected"]["hops"].as_array().unwrap().iter().enumerate() {
            let ttl = e.get("ttl").and_then(toml::Value::as_integer).map_or(reference.lowest_ttl + hi as u8, |x| x as u8);
            let default_hop = refstate::RefHop::default();
            let r = reference.hops.get(&ttl).unwrap_or(&default_hop);
            let f = |k: &str| e.get(k).map(|v| v.as_float().unwrap_or_else(|| v.as_integer().unwrap() as f64));
            let rt: Vec<f64> = r.rtts.iter().map(|d| d.as_secs_f64() * 1000.0).collect();
            let nn = rt.len();
            let mut jit = vec![];
            for (i, x) in rt.iter().enumerate() {
                jit.push(if i == 0 { *x } else { (x - rt[i - 1]).abs() });
            }
            let mut jinta = 0.0;
            for j in &jit {
                jinta += f64::max(*j, 0.5) - (jinta + 8.0) / 16.0;
            }
            let mut cmp = |k: &str, got: Option<f64>| {
                if let Some(want) = f(k) {
                    let g = got.unwrap_or(f64::NAN);
                    assert!((g - want).abs() < 1e-9, "MACHINERY: reference model disagrees with {path:?} hop {ttl} {k}: {g} vs {want}");
                    n += 1;
                }
            };
            cmp("total_sent", Some(r.sent as f64));
            cmp("total_recv", Some(r.recv as f64));
            cmp("total_forward_loss", Some(r.forward_loss as f64));
            cmp("total_backward_loss", Some(r.backward_loss as f64));
            cmp("loss_pct", Some(if r.sent > 0 { (r.sent - r.recv) as f64 / r.sent as f64 * 100.0 } else { 0.0 }));
            cmp("last_ms", rt.last().copied());
            cmp("best_ms", rt.iter().copied().reduce(f64::min));
            cmp("worst_ms", rt.iter().copied().reduce(f64::max));
            cmp("avg_ms", Some(if nn > 0 { rt.iter().sum::<f64>() / nn as f64 } else { 0.0 }));
            cmp("jitter", if nn > 1 { jit.last().copied() } else { None });
            cmp("javg", Some(if nn > 0 { jit.iter().sum::<f64>() / nn as f64 } else { 0.0 }));
            cmp("jmax", jit.iter().copied().reduce(f64::max));
            cmp("jinta", Some(jinta));
            cmp("last_src", Some(f64::from(r.last_src)));
            cmp("last_dest", Some(f64::from(r.last_dest)));
            cmp("last_sequence", Some(f64::from(r.last_seq)));
            if let Some(s) = e.get("samples").and_then(toml::Value::as_array) {
                let want: Vec<f64> = s.iter().map(|v| v.as_float().unwrap_or_else(|| v.as_integer().unwrap() as f64)).collect();
                let got: Vec<f64> = r.samples.iter().rev().map(|d| d.as_secs_f64() * 1000.0).collect();
                assert!(got == want, "MACHINERY: reference samples disagree with {path:?} hop {ttl}: {got:?} vs {want:?}");
                n += 1;
            }
            if let Some(nat) = e.get("last_nat_status").and_then(toml::Value::as_str) {
                let got = match r.nat {
                    None => "none",
                    Some(trippy_core::NatStatus::Detected) => "nat",
                    Some(trippy_core::NatStatus::NotDetected) => "no_nat",
                    Some(trippy_core::NatStatus::NotApplicable) => "none",
                };
                assert!(got == nat, "MACHINERY: reference NAT status disagrees with {path:?} hop {ttl}: {got} vs {nat}");
                n += 1;
            }
            if let Some(a) = e.get("addrs").and_then(toml::Value::as_table) {
                for (k, v) in a {
                    let ip: std::net::IpAddr = k.parse().unwrap();
                    let c = r.addrs.iter().find(|(x, _)| *x == ip).map_or(0, |x| x.1);
                    assert!(c as i64 == v.as_integer().unwrap(), "MACHINERY: reference address counts disagree with {path:?} hop {ttl}");
                    n += 1;
                }
            }
        }
    }
    assert!(n > 100, "MACHINERY: scenario fixtures not found ({n} comparisons)");
    n
}

pub fn replay(path: &str) -> i32 {
    let s = std::fs::read_to_string(path).expect("MACHINERY: cannot read replay file");
    let v: Value = serde_json::from_str(&s).expect("MACHINERY: replay JSON");
    let r = if v.get("replay").is_some() { &v["replay"] } else { &v };
    let Some(hist_idx) = r["history"].as_array() else {
        println!("this C05 artefact (long history / real rounds) is reproduced by re-running the check: ./check C05 --tier quick");
        return 2;
    };
    let first_ttl = r["first_ttl"].as_u64().unwrap() as u8;
    let max_samples = r["max_samples"].as_u64().unwrap() as usize;
    let al = alphabet(first_ttl, r["hops"].as_u64().unwrap_or(2) as usize);
    let mut st = State::new(StateConfig { max_samples, max_flows: 1 });
    let mut hist = vec![];
    let mut bad = vec![];
    for (i, x) in hist_idx.iter().enumerate() {
        let sh = &al[x.as_u64().unwrap() as usize];
        println!("round {i}: {:?}", sh.outs);
        let rr = stateexp::build(sh, i, (i as u16) * 16);
        stateexp::apply(&mut st, &rr);
        hist.push(rr);
        bad = oracle(&st, &hist, max_samples);
    }
    for h in st.hops() {
        println!("  hop {}: sent {} recv {} avg {:.4} stddev {:.4} jitter {:?} javg {:.4} jinta {:.4} samples {:?}", h.ttl(), h.total_sent(), h.total_recv(), h.avg_ms(), h.stddev_ms(), h.jitter_ms(), h.javg_ms(), h.jinta(), h.samples());
    }
    for (k, d) in &bad {
        println!("DISCREPANCY {k}: {d}");
    }
    if bad.is_empty() {
        println!("replay: property held");
        0
    } else {
        println!("VIOLATION property=C05 replay={path}");
        1
    }
}

pub fn run(args: &Args) -> i32 {
    if let Some(path) = &args.replay {
        return replay(path);
    }
    let tier = args.tier;
    let mut rep = Report::new("C05", tier, "model_checking");
    let fixture_cmps = fixture_self_test();
    let findings: Mutex<Findings> = Mutex::new(Findings::new());
    let agg = Mutex::new((0u64, 0u64, 0u64, 0usize, vec![]));
    // ---- (1) all histories up to the depth bound --------------------------------------------
    let depth = if tier == Tier::Thorough { 4 } else { 3 };
    let mut tasks: Vec<(u8, usize, usize, usize)> = vec![]; // first_ttl, max_samples, H, first shape
    for first_ttl in [1u8, 2, 250] {
        for max_samples in [0usize, 1, 2, 256] {
            for h in [2usize, 3] {
                // three-hop alphabet (348 shapes): one configuration in quick, four in thorough
                let h3_cfg = match tier {
                    Tier::Quick => first_ttl == 1 && max_samples == 2,
                    Tier::Thorough => matches!((first_ttl, max_samples), (1, 2) | (2, 0) | (250, 256) | (1, 1)),
                };
                if h == 3 && !h3_cfg {
                    continue;
                }
                let d = if h == 3 { depth - 1 } else { depth };
                let n = alphabet(first_ttl, h).len();
                for first in 0..n {
                    tasks.push((first_ttl, max_samples, h * 100 + d, first));
                }
            }
        }
    }
    mc::par_for(tasks.len(), mc::workers(), |ti| {
        let (first_ttl, max_samples, hd, first) = tasks[ti];
        let (h, d) = (hd / 100, hd % 100);
        let al = alphabet(first_ttl, h);
        let mut local = Findings::new();
        let mut evals = 0u64;
        let mut sample = None;
        let stats = stateexp::dfs(StateConfig { max_samples, max_flows: 1 }, &al, d, Some(first), &refstate::state_key, &mut |st, hist, idx| {
            evals += 1;
            for (k, detail) in oracle(st, hist, max_samples) {
                let e = local.entry(k.clone()).or_insert_with(|| Finding { key: k, detail: format!("[first_ttl={first_ttl} max_samples={max_samples} history={idx:?}] {detail}"), replay: json!({"check":"C05","first_ttl":first_ttl,"max_samples":max_samples,"hops":h,"history":idx}), weight: (hist.len(), 0), count: 0 });
                e.count += 1;
            }
            if sample.is_none() && idx.len() == d && ti % 97 == 0 {
                sample = Some(json!({"first_ttl": first_ttl, "max_samples": max_samples, "history": idx.iter().map(|i| format!("{:?}", al[*i].outs)).collect::<Vec<_>>()}));
            }
            local.len() < 40
        });
        for (what, pn, hidx) in &stats.panics {
            let key = format!("{}:{what}", pn.key());
            local.entry(key.clone()).or_insert_with(|| Finding { key, detail: format!("[first_ttl={first_ttl} history={hidx:?}] {what} panicked: {} at {}:{}", pn.message, pn.file, pn.line), replay: json!({"check":"C05","first_ttl":first_ttl,"max_samples":max_samples,"hops":h,"history":hidx}), weight: (hidx.len(), 0), count: 1 });
        }
        let mut a = agg.lock().unwrap();
        a.0 += stats.states;
        a.1 += stats.transitions;
        a.2 += evals;
        a.3 = a.3.max(stats.max_depth);
        if let Some(s) = sample {
            if a.4.len() < 3 {
                a.4.push(s);
            }
        }
        drop(a);
        merge(&findings, local);
    });
    // ---- (2) long histories: de Bruijn order-3 sequences, 5000 rounds -------------------------
    let long_n = if tier == Tier::Thorough { 5000 } else { 1500 };
    let mut long_tasks = vec![];
    for first_ttl in [1u8, 2, 250] {
        for max_samples in [0usize, 3, 256] {
            long_tasks.push((first_ttl, max_samples));
        }
    }
    let long_total = Mutex::new(0u64);
    mc::par_for(long_tasks.len(), mc::workers(), |ti| {
        let (first_ttl, max_samples) = long_tasks[ti];
        let full = alphabet(first_ttl, 2);
        // a 12-symbol sub-alphabet (every hop outcome kind appears), order 3 => 1728 triples
        let sub: Vec<Shape> = (0..12).map(|i| full[(i * 17 + ti) % full.len()].clone()).collect();
        let seq = stateexp::de_bruijn(sub.len(), 3);
        let mut st = State::new(StateConfig { max_samples, max_flows: 1 });
        let mut hist: Vec<RoundRec> = vec![];
        let mut local = Findings::new();
        let mut evals = 0u64;
        for i in 0..long_n {
            let sh = &sub[seq[i % seq.len()]];
            let r = stateexp::build(sh, i, (i as u16).wrapping_mul(8));
            stateexp::apply(&mut st, &r);
            hist.push(r);
            if (i + 1) % 50 == 0 || i + 1 == long_n {
                evals += 1;
                for (k, detail) in oracle(&st, &hist, max_samples) {
                    let e = local.entry(format!("{k}:long-history")).or_insert_with(|| Finding { key: format!("{k}:long-history"), detail: format!("[first_ttl={first_ttl} max_samples={max_samples} after {} rounds] {detail}", i + 1), replay: json!({"check":"C05","long":true,"first_ttl":first_ttl,"max_samples":max_samples,"rounds":i+1}), weight: (i, 0), count: 0 });
                    e.count += 1;
                }
            }
        }
        *long_total.lock().unwrap() += evals;
        merge(&findings, local);
    });
    // ---- (3) rounds produced by the real strategy over the simulated network ------------------
    let mut real_rounds = 0u64;
    {
        let mut local = Findings::new();
        for cell in drive::base_cells() {
            for topo in ["L3", "silent-mid", "every-other", "ecmp", "silent-target"] {
                let p = TraceParams { rounds: 6, max_flows: 1, packet_size: if cell.v6 { 96 } else { 84 }, ..TraceParams::default() };
                let net = drive::net_cfg(&cell, &p, drive::topo_named(&cell, topo), Menu::default());
                let o = drive::run_trace(&cell, &p, net, Chooser::new(&[], 0));
                let hist: Vec<RoundRec> = o.world.publishes.iter().map(|pb| RoundRec { probes: pb.probes.clone(), largest_ttl: pb.largest_ttl }).collect();
                real_rounds += hist.len() as u64;
                if let Some(st) = &o.snapshot {
                    for (k, detail) in oracle(st, &hist, p.max_samples) {
                        let e = local.entry(format!("{k}:real-rounds")).or_insert_with(|| Finding { key: format!("{k}:real-rounds"), detail: format!("[{} {topo}] {detail}", cell.name()), replay: json!({"check":"C05","real":true,"cell":cell.name(),"topo":topo}), weight: (0, 0), count: 0 });
                        e.count += 1;
                    }
                }
            }
        }
        merge(&findings, local);
    }
    let (states, transitions, evals, max_depth, samples) = agg.into_inner().unwrap();
    let long_evals = *long_total.lock().unwrap();
    rep.merge_findings(findings.into_inner().unwrap());
    rep.set("states", json!(states));
    rep.set("transitions", json!(transitions));
    rep.set("traces_validated_against_impl", json!(transitions));
    rep.set("evaluations", json!(evals + long_evals));
    rep.set("distinct_nontrivial", json!(states));
    rep.set("depth_completed", json!(depth));
    rep.set("max_depth", json!(max_depth));
    rep.set("long_history_rounds", json!(long_n));
    rep.set("long_history_oracle_evaluations", json!(long_evals));
    rep.set("real_strategy_rounds_fed_to_oracle", json!(real_rounds));
    rep.set("reference_model_fixture_comparisons", json!(fixture_cmps));
    rep.set("rule", json!(format!("state = real trippy_core::State, transition = State::update_from_round on a synthetic round; alphabet: 2 hops x 7 outcomes (Complete with rtt 0/1ms/3ms/1.5s, 2 addresses, tos; Awaited; Failed) + re-issue/short/long fillers + 3 shapes with UDP checksums (NAT status) = 57 shapes (3 hops: 351), largest_ttl by the strategy's contract; ALL histories to depth {depth} for first_ttl {{1,2,250}} x max_samples {{0,1,2,256}}, de-duplicated on (depth, all getter results); oracle after EVERY round = independent recomputation from the list of rounds (default flow, and every registered flow that was given every round; the sample limit for every hop of every flow) (validated against the repository's 9 scenario files: {fixture_cmps} expected values reproduced) + the listed inequalities. Long histories: order-3 de Bruijn sequences over 12 shapes, {long_n} rounds, checked every 50. Real rounds: 14 cells x 5 topologies x 6 rounds from the real strategy")));
    for s in samples {
        rep.sample(s);
    }
    rep.assumptions = vec!["synthetic rounds obey the strategy's contract (ascending TTLs, largest_ttl in {0} U [lowest probed, 254]) - DESIGN.md 5.4".into(), "floating point compared with relative tolerance 1e-9 (+3 ns for Duration rounding)".into()];
    rep.finish()
}

fn merge(findings: &Mutex<Findings>, local: Findings) {
    let mut g = findings.lock().unwrap();
    for (k, f) in local {
        match g.get_mut(&k) {
            Some(o) => {
                o.count += f.count;
                if f.weight < o.weight {
                    let c = o.count;
                    *o = f;
                    o.count = c;
                }
            }
            None => {
                g.insert(k, f);
            }
        }
    }
}

#[allow(dead_code)]
fn unused(_: Value) {}
