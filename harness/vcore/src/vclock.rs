//! Virtual wall clock: the harness binary defines `clock_gettime`, which std's
//! `SystemTime::now()` binds to at link time.  `CLOCK_REALTIME` returns a thread-local virtual
//! time when one is set; every other clock id (and threads with no virtual time) falls through
//! to the raw syscall.  `Instant` (monotonic) is untouched.

use std::cell::Cell;
use std::time::{Duration, SystemTime, UNIX_EPOCH};

/// Virtual epoch offset so that virtual instants look like sane dates.
pub const BASE_NS: u64 = 1_700_000_000_000_000_000;

thread_local! {
    static VNOW: Cell<u64> = const { Cell::new(0) };
}

#[no_mangle]
pub unsafe extern "C" fn clock_gettime(clk: libc::clockid_t, ts: *mut libc::timespec) -> libc::c_int {
    if clk == libc::CLOCK_REALTIME {
        let v = VNOW.with(Cell::get);
        if v != 0 {
            (*ts).tv_sec = (v / 1_000_000_000) as libc::time_t;
            (*ts).tv_nsec = (v % 1_000_000_000) as libc::c_long;
            return 0;
        }
    }
    libc::syscall(libc::SYS_clock_gettime, clk, ts) as libc::c_int
}

/// Deterministic entropy: std seeds every thread's `RandomState` (HashMap iteration order) from
/// `getrandom`.  Third-party code under test iterates hash maps where order matters (ratatui's
/// layout solver pivots in hash order and, for some orders, never terminates), which made whole
/// runs irreproducible.  With this interposer every thread starts from the same keys
/// (`VERIF_HASH_SEED`, default 0), so a history replayed in a fresh thread always hashes alike.
#[no_mangle]
pub unsafe extern "C" fn getrandom(buf: *mut libc::c_void, len: libc::size_t, _flags: libc::c_uint) -> libc::ssize_t {
    static SEED: std::sync::OnceLock<u8> = std::sync::OnceLock::new();
    let seed = *SEED.get_or_init(|| std::env::var("VERIF_HASH_SEED").ok().and_then(|s| s.parse::<u64>().ok()).unwrap_or(0) as u8);
    let ov = HASH_SEED_OVERRIDE.load(std::sync::atomic::Ordering::Relaxed);
    let seed = if ov == NO_OVERRIDE { seed } else { ov as u8 };
    let out = std::slice::from_raw_parts_mut(buf.cast::<u8>(), len);
    for (i, b) in out.iter_mut().enumerate() {
        *b = (i as u8).wrapping_mul(0x9d).wrapping_add(0x3c) ^ seed;
    }
    len as libc::ssize_t
}

const NO_OVERRIDE: u16 = 0xffff;
static HASH_SEED_OVERRIDE: std::sync::atomic::AtomicU16 = std::sync::atomic::AtomicU16::new(NO_OVERRIDE);

/// Threads started from now on hash with this seed instead of `VERIF_HASH_SEED` (`None` = back to it).
/// Used to tell a hang that depends on hash-map iteration order from one that does not.
pub fn set_hash_seed_override(seed: Option<u8>) {
    HASH_SEED_OVERRIDE.store(seed.map_or(NO_OVERRIDE, u16::from), std::sync::atomic::Ordering::Relaxed);
}

/// Hash of a fixed value under a RandomState created in a fresh thread (self-test helper).
pub fn fresh_thread_hash() -> u64 {
    std::thread::spawn(|| {
        use std::hash::BuildHasher;
        std::collections::hash_map::RandomState::new().hash_one(0x1234_5678_u64)
    })
    .join()
    .expect("MACHINERY: thread")
}

/// Set the virtual time of this thread (ns since the virtual base); `None` unsets it.
pub fn set(ns: Option<u64>) {
    // keep the interposed symbol alive in every binary that links this library
    std::hint::black_box(clock_gettime as *const () as usize);
    std::hint::black_box(getrandom as *const () as usize);
    VNOW.with(|v| v.set(ns.map_or(0, |n| BASE_NS + n)));
}

pub fn get() -> u64 {
    VNOW.with(Cell::get).saturating_sub(BASE_NS)
}

pub fn advance(ns: u64) {
    VNOW.with(|v| {
        assert!(v.get() != 0, "MACHINERY: virtual clock not set");
        v.set(v.get() + ns);
    });
}

/// Convert a `SystemTime` produced under the virtual clock back to virtual ns.
pub fn to_ns(t: SystemTime) -> u64 {
    let d = t.duration_since(UNIX_EPOCH).expect("MACHINERY: time before epoch");
    (d.as_nanos() as u64).saturating_sub(BASE_NS)
}

pub fn from_ns(ns: u64) -> SystemTime {
    UNIX_EPOCH + Duration::from_nanos(BASE_NS + ns)
}

/// Start-up self-test: `SystemTime::now()` must observe the virtual clock.
pub fn self_test() {
    set(Some(123_456_789));
    let now = SystemTime::now();
    let ok = to_ns(now) == 123_456_789;
    advance(11);
    let ok2 = to_ns(SystemTime::now()) == 123_456_800;
    set(None);
    let real = SystemTime::now().duration_since(UNIX_EPOCH).unwrap().as_secs();
    assert!(
        ok && ok2 && real > 1_600_000_000,
        "MACHINERY: virtual clock seam is not effective (clock_gettime not interposed)"
    );
    // two fresh threads must seed their hash maps identically, and a known value must come out
    let (a, b) = (fresh_thread_hash(), fresh_thread_hash());
    assert!(a == b, "MACHINERY: entropy seam is not effective (getrandom not interposed): {a:#x} vs {b:#x}");
}
