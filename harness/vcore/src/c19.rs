//! C19 — NAT is flagged at the first hop that sees a rewritten datagram.
//! Bounded-exhaustive topologies (every placement of <= 2 rewriting devices and every subset of
//! silent hops on paths of length <= 5) through real executions (E1 over E2).

use crate::c01::{self, GtIndex};
use crate::drive::{self, all_cells, Cell, RunOutcome, TraceParams};
use crate::mc::{self, Chooser};
use crate::report::{Args, Finding, Report, Tier};
use crate::simnet::{Hop, HopKind, Menu, Proto, Quote, Target, Topo};
use serde_json::{json, Value};
use std::collections::{BTreeMap, HashSet};
use std::sync::Mutex;
use trippy_core::{MultipathStrategy, NatStatus, ProbeStatus};

#[derive(Debug, Clone)]
struct Task {
    cell: Cell,
    l: usize,
    nat_mask: u32,
    silent_mask: u32,
    target_answers: bool,
    size: u16,
    pattern: u8,
    bound: usize,
    /// initial sequence (Dublin: the per-round flow port starts here), rounds
    init: u16,
    rounds: usize,
    /// the rewriting devices clear the UDP checksum instead of fixing it up
    nat_zero: bool,
}

fn topo(t: &Task) -> Topo {
    let hops = (1..t.l)
        .map(|ttl| {
            let mut h = Hop::reply(t.cell.hop_addr(ttl as u8, 0));
            h.quote = if t.cell.v6 || ttl % 2 == 0 { Quote::Full } else { Quote::HeaderPlus(8) };
            h.nat = t.nat_mask & (1 << (ttl - 1)) != 0;
            h.nat_zero = h.nat && t.nat_zero;
            if t.silent_mask & (1 << (ttl - 1)) != 0 {
                h.kind = HopKind::Silent;
            }
            h
        })
        .collect();
    Topo { hops, target: if t.target_answers { Target::Answers } else { Target::Silent }, target_quote: Quote::Full }
}

fn params(t: &Task) -> TraceParams {
    TraceParams { packet_size: t.size, pattern: t.pattern, rounds: t.rounds, max_ttl: 7, initial_sequence: t.init, ..TraceParams::default() }
}

fn run_once(t: &Task, ch: Chooser) -> RunOutcome {
    let p = params(t);
    let net = drive::net_cfg(&t.cell, &p, topo(t), Menu { delay: true, loss: true, reorder: true, ..Menu::default() });
    drive::SNAPSHOT_EACH_ROUND.with(|s| s.set(true));
    let o = drive::run_trace(&t.cell, &p, net, ch);
    drive::SNAPSHOT_EACH_ROUND.with(|s| s.set(false));
    o
}

fn applicable(cell: &Cell) -> bool {
    cell.proto == Proto::Udp && cell.strategy == MultipathStrategy::Dublin && !cell.v6
}

fn judge(t: &Task, o: &RunOutcome) -> (Vec<(String, String)>, [u64; 3]) {
    let mut bad = vec![];
    let mut counts = [0u64; 3]; // detected, not detected, not applicable (hop-rounds checked)
    if let Some(p) = &o.panic {
        bad.push((p.key(), format!("{} at {}:{}", p.message, p.file, p.line)));
        return (bad, counts);
    }
    if let Err(e) = &o.result {
        bad.push(("run-error".into(), e.clone()));
        return (bad, counts);
    }
    let w = &o.world;
    let ix = GtIndex::build(w);
    for (r, publ) in w.publishes.iter().enumerate() {
        let Some(snap) = o.round_snapshots.get(r) else {
            bad.push(("no-snapshot".into(), format!("round {r}")));
            continue;
        };
        let hops = snap.hops();
        // the oracle, straight from the statement: walk the responding hops in TTL order
        let mut prev: Option<u16> = None;
        let exp = c01::expectations_ix(w, &ix, r);
        let sent: Vec<&crate::simnet::SentRec> = w.sent.iter().filter(|s| s.round == r).collect();
        for (i, slot) in publ.probes.iter().enumerate() {
            let ProbeStatus::Complete(c) = slot else { continue };
            let ttl = c.ttl.0;
            let Some(hop) = hops.iter().find(|h| h.ttl() == ttl) else { continue };
            if !applicable(&t.cell) {
                counts[2] += 1;
                if hop.last_nat_status() != NatStatus::NotApplicable {
                    bad.push(("not-applicable-expected".into(), format!("round {r} ttl {ttl}: {:?}", hop.last_nat_status())));
                }
                continue;
            }
            // ground truth: which response completed this slot, and what it quoted
            let _ = &exp[i];
            let s = sent[i];
            let first = w.deliveries.iter().find(|d| d.genuine && d.for_sent == s.idx && d.round == r);
            let Some(d) = first else { continue };
            let quoted = w.resps[d.resp].quoted_udp_cksum.expect("MACHINERY: quoted checksum");
            let as_sent = u16::from_be_bytes([s.wire[s.l4off + 6], s.wire[s.l4off + 7]]);
            let want = match prev {
                None => {
                    if quoted != as_sent {
                        NatStatus::Detected
                    } else {
                        NatStatus::NotDetected
                    }
                }
                Some(p) => {
                    if quoted != p {
                        NatStatus::Detected
                    } else {
                        NatStatus::NotDetected
                    }
                }
            };
            prev = Some(quoted);
            match want {
                NatStatus::Detected => counts[0] += 1,
                _ => counts[1] += 1,
            }
            if hop.last_nat_status() != want {
                bad.push((
                    format!("nat-status:{:?}-reported-{:?}-expected", hop.last_nat_status(), want),
                    format!("round {r} ttl {ttl}: reported {:?}, but the checksum it quotes is {quoted:#06x}, previous responding hop quoted {prev:?} (probe as sent {as_sent:#06x})", hop.last_nat_status()),
                ));
            }
        }
    }
    (bad, counts)
}

fn task_json(t: &Task) -> Value {
    json!({"cell": t.cell.name(), "cell_index": c01::cell_index(&t.cell), "target_distance": t.l, "nat_mask": t.nat_mask, "silent_mask": t.silent_mask, "target_answers": t.target_answers, "packet_size": t.size, "pattern": t.pattern, "initial_sequence": t.init, "rounds": t.rounds, "nat_clears_checksum": t.nat_zero})
}

pub fn run(args: &Args) -> i32 {
    if let Some(path) = &args.replay {
        return replay(path);
    }
    let tier = args.tier;
    let mut rep = Report::new("C19", tier, "model_checking");
    let mut tasks = vec![];
    let dublin4: Vec<Cell> = all_cells().into_iter().filter(|c| applicable(c) && !c.ext).collect();
    let sizes: Vec<(u16, u8)> = if tier == Tier::Thorough { vec![(28, 0), (28, 0xaa), (29, 0), (29, 0xaa), (84, 0), (84, 0xaa), (1024, 0), (1024, 0xaa)] } else { vec![(28, 0xaa), (29, 0), (84, 0), (1024, 0xaa)] };
    for cell in &dublin4 {
        for l in 1..=5usize {
            let nh = l - 1;
            for nat_mask in 0..(1u32 << nh) {
                if nat_mask.count_ones() > 2 {
                    continue;
                }
                for silent_mask in 0..(1u32 << nh) {
                    for target_answers in [true, false] {
                        for (k, &(size, pattern)) in sizes.iter().enumerate() {
                            // the size/pattern dimension feeds only the expected checksum: full
                            // product on paths up to 3, rotating on longer ones in quick
                            if tier == Tier::Quick && l > 3 && (nat_mask as usize + silent_mask as usize + k) % sizes.len() != 0 {
                                continue;
                            }
                            tasks.push(Task { cell: *cell, l, nat_mask, silent_mask, target_answers, size, pattern, bound: if tier == Tier::Thorough { 3 } else { 2 }, init: 33434, rounds: 2, nat_zero: false });
                        }
                    }
                }
            }
        }
    }
    // a rewriting device that clears the UDP checksum (legal over IPv4) instead of fixing it up:
    // every hop behind it quotes checksum 0
    for cell in &dublin4 {
        for l in [3usize, 5] {
            for nat_mask in [0b01u32, 0b10] {
                for silent_mask in [0u32, 0b100] {
                    if silent_mask >= (1 << (l - 1)) {
                        continue;
                    }
                    tasks.push(Task { cell: *cell, l, nat_mask, silent_mask, target_answers: true, size: 84, pattern: 0, bound: 1, init: 33434, rounds: 2, nat_zero: true });
                }
            }
        }
    }
    // value sweep: a path WITHOUT rewriting never shows NAT, whatever the checksum value - every
    // initial sequence (= every value of the varying port, hence every UDP checksum residue incl.
    // 0x0000 / 0xFFFF), undisturbed, one round, two responding hops
    let sweep_sizes: Vec<(u16, u8)> = if tier == Tier::Thorough { sizes.clone() } else { vec![(84, 0)] };
    for cell in &dublin4 {
        for &(size, pattern) in &sweep_sizes {
            for init in 0..=64511u16 {
                tasks.push(Task { cell: *cell, l: 3, nat_mask: 0, silent_mask: 0, target_answers: true, size, pattern, bound: 0, init, rounds: 1, nat_zero: false });
            }
        }
    }
    // size / pattern sweep on the clean path: every packet size 28..=1024 x payload patterns
    // (the expected checksum is recomputed from size and pattern on the receive side)
    for cell in &dublin4 {
        for size in 28..=1024u16 {
            for pattern in [0x00u8, 0x01, 0xaa, 0xff] {
                tasks.push(Task { cell: *cell, l: 3, nat_mask: 0, silent_mask: 0, target_answers: true, size, pattern, bound: 0, init: 33434, rounds: 1, nat_zero: false });
            }
        }
    }
    // every other cell: not applicable, once (with a rewriting device on the path)
    for cell in all_cells() {
        if !applicable(&cell) {
            tasks.push(Task { cell, l: 3, nat_mask: 0b01, silent_mask: 0, target_answers: true, size: if cell.v6 { 96 } else { 84 }, pattern: 0, bound: 0, init: 33434, rounds: 2, nat_zero: false });
        }
    }
    let agg = Mutex::new((mc::ExploreStats::default(), 0u64, [0u64; 3], 0u64, vec![]));
    let findings: Mutex<BTreeMap<String, Finding>> = Mutex::new(BTreeMap::new());
    mc::par_for(tasks.len(), mc::workers(), |ti| {
        let t = &tasks[ti];
        let mut digests = HashSet::new();
        let mut local: BTreeMap<String, Finding> = BTreeMap::new();
        let mut csum = [0u64; 3];
        let mut first = true;
        let mut replays = 0u64;
        let mut sample = None;
        let stats = mc::explore(t.bound, 400, &mut |ch| {
            let c = std::mem::replace(ch, Chooser::new(&[], 0));
            let o = run_once(t, c);
            *ch = o.world.chooser.clone();
            let (bad, counts) = judge(t, &o);
            for i in 0..3 {
                csum[i] += counts[i];
            }
            let statuses: Vec<Vec<(u8, u8)>> = o.round_snapshots.iter().map(|s| s.hops().iter().map(|h| (h.ttl(), h.last_nat_status() as u8)).collect()).collect();
            let dg = mc::hash64(&(c01::observation_digest(&o.world), statuses));
            digests.insert(dg);
            if first || !bad.is_empty() {
                let o2 = run_once(t, Chooser::new(&ch.choices, 400));
                assert!(c01::observation_digest(&o2.world) == c01::observation_digest(&o.world), "MACHINERY: nondeterministic replay (C19)");
                replays += 1;
                if first && ti % 503 == 0 {
                    sample = Some(json!({"task": task_json(t), "choices": ch.choices, "nat_status_per_round": o.round_snapshots.iter().map(|s| s.hops().iter().map(|h| format!("{}:{:?}", h.ttl(), h.last_nat_status())).collect::<Vec<_>>()).collect::<Vec<_>>()}));
                }
                first = false;
            }
            for (k, d) in bad {
                let key = format!("{k}@{}", t.cell.name().split('/').take(4).collect::<Vec<_>>().join("/"));
                let f = Finding { key: key.clone(), detail: format!("[{}] {d}", task_json(t)), replay: json!({"check":"C19","task":task_json(t),"choices":ch.choices}), weight: (ch.deviations() + t.l, ch.choices.len()), count: 1 };
                match local.get_mut(&key) {
                    Some(o) => {
                        o.count += 1;
                        if f.weight < o.weight {
                            let c = o.count;
                            *o = f;
                            o.count = c;
                        }
                    }
                    None => {
                        local.insert(key, f);
                    }
                }
            }
            local.values().map(|f| f.count).sum::<u64>() < 100
        });
        let mut a = agg.lock().unwrap();
        a.0.merge(&stats);
        a.1 += digests.len() as u64;
        for i in 0..3 {
            a.2[i] += csum[i];
        }
        a.3 += replays;
        if let Some(s) = sample {
            if a.4.len() < 3 {
                a.4.push(s);
            }
        }
        drop(a);
        let mut g = findings.lock().unwrap();
        for (k, f) in local {
            match g.get_mut(&k) {
                Some(o) => {
                    o.count += f.count;
                    if f.weight < o.weight {
                        let c = o.count;
                        *o = f;
                        o.count = c;
                    }
                }
                None => {
                    g.insert(k, f);
                }
            }
        }
    });
    let (stats, digests, counts, replays, samples) = agg.into_inner().unwrap();
    rep.merge_findings(findings.into_inner().unwrap());
    rep.set("states", json!(stats.states));
    rep.set("transitions", json!(stats.transitions));
    rep.set("traces_validated_against_impl", json!(stats.executions));
    rep.set("evaluations", json!(stats.executions));
    rep.set("distinct_nontrivial", json!(digests));
    rep.set("executions_by_deviations", json!(stats.executions_by_dev));
    rep.set("topology_tasks", json!(tasks.len()));
    rep.set("determinism_replays", json!(replays));
    rep.observe("hop_rounds_expected_detected", json!(counts[0]));
    rep.observe("hop_rounds_expected_not_detected", json!(counts[1]));
    rep.observe("hop_rounds_expected_not_applicable", json!(counts[2]));
    rep.set("rule", json!("IPv4/UDP/Dublin x ports {fixed src, fixed dest, fixed both} x (size,pattern) {28,29,84,1024}x{00,AA}: EVERY path with target distance 1..5, every placement of <= 2 address/port-rewriting devices, every subset of silent hops, target answering or silent (+ devices that clear the UDP checksum instead of fixing it up, on paths of 3 and 5); 2 rounds; all executions with <= 2 (quick) / 3 (thorough) scheduling deviations (delay, loss, reorder). Oracle straight from the statement on the simulator's ground truth (UDP checksum each hop quoted vs previous responding hop / probe as sent), compared with Hop::last_nat_status() in the snapshot taken at each publish. Value sweep: every initial sequence 0..=64511 (every value of the varying port, so every UDP checksum residue incl. 0x0000/0xFFFF) on an undisturbed 3-hop path without rewriting: no hop may show NAT; likewise every packet size 28..=1024 x payload patterns {00,01,aa,ff}. All other cells once: NotApplicable"));
    for s in samples {
        rep.sample(s);
    }
    rep.assumptions = vec![c01::ASSUME.into(), "NAT model: a rewriting device adjusts the UDP checksum per RFC 1624 on arrival; quotations come back with addresses/ports restored and the checksum adjusted".into()];
    rep.finish()
}

pub fn replay(path: &str) -> i32 {
    let s = std::fs::read_to_string(path).expect("MACHINERY: cannot read replay file");
    let v: Value = serde_json::from_str(&s).expect("MACHINERY: replay JSON");
    let r = if v.get("replay").is_some() { &v["replay"] } else { &v };
    let tj = &r["task"];
    let t = Task {
        cell: all_cells()[tj["cell_index"].as_u64().unwrap() as usize],
        l: tj["target_distance"].as_u64().unwrap() as usize,
        nat_mask: tj["nat_mask"].as_u64().unwrap() as u32,
        silent_mask: tj["silent_mask"].as_u64().unwrap() as u32,
        target_answers: tj["target_answers"].as_bool().unwrap(),
        size: tj["packet_size"].as_u64().unwrap() as u16,
        pattern: tj["pattern"].as_u64().unwrap() as u8,
        bound: 0,
        init: tj["initial_sequence"].as_u64().unwrap_or(33434) as u16,
        rounds: tj["rounds"].as_u64().unwrap_or(2) as usize,
        nat_zero: tj["nat_clears_checksum"].as_bool().unwrap_or(false),
    };
    let choices: Vec<u16> = r["choices"].as_array().unwrap().iter().map(|c| c.as_u64().unwrap() as u16).collect();
    let o = run_once(&t, Chooser::new(&choices, 100_000));
    println!("replay C19 task={} choices={choices:?}", task_json(&t));
    for (ri, s) in o.round_snapshots.iter().enumerate() {
        println!("  after round {ri}: {:?}", s.hops().iter().map(|h| format!("ttl {} {:?}", h.ttl(), h.last_nat_status())).collect::<Vec<_>>());
    }
    for rr in &o.world.resps {
        println!("  response #{} for sent#{} from {} quoted udp checksum {:?}", rr.id, rr.for_sent, rr.from, rr.quoted_udp_cksum);
    }
    let (bad, _) = judge(&t, &o);
    for (k, d) in &bad {
        println!("DISCREPANCY {k}: {d}");
    }
    if bad.is_empty() {
        println!("replay: property held");
        0
    } else {
        println!("VIOLATION property=C19 replay={path}");
        1
    }
}
