//! C02 — a probe's identity survives the wire: encode, quote, decode, match.
//! Exhaustive over a finite product: every sequence number the real allocator can issue x
//! quotation shapes x cells, through the real dispatch and receive code over E2; plus the
//! negative half (one identity field altered => never accepted).

use crate::c01::{self, GtIndex};
use crate::drive::{self, all_cells, Cell, Ports, TraceParams};
use crate::mc::{self, Chooser};
use crate::report::{Args, Finding, Report, Tier};
use crate::simnet::{Alter, Hop, Menu, Proto, Quote, Target, Topo};
use crate::wire::{ExtLayout, ExtObj, MplsMember};
use serde_json::{json, Value};
use std::collections::BTreeMap;
use std::sync::Mutex;
use std::time::Duration;
use trippy_core::{MultipathStrategy, ProbeStatus};

const NSHAPES: usize = 13;

fn shape_name(i: usize) -> &'static str {
    ["hdr+8", "hdr+28", "hdr+64", "full", "unreachable-hdr+8", "quoted-ttl-0", "quoted-cksum-zero", "tos-rewritten", "outer-ihl-6", "outer-ihl-15", "ext-compliant", "ext-legacy", "full+tos+ttl0"][i % NSHAPES]
}

fn shaped_hop(cell: &Cell, ttl: u8, shape: usize) -> Hop {
    let mut h = Hop::reply(cell.hop_addr(ttl, 0));
    let v6 = cell.v6;
    let objs = vec![ExtObj::Mpls(vec![MplsMember { label: 19380, exp: 1, bos: 0, ttl: 1 }, MplsMember { label: 16, exp: 0, bos: 1, ttl: 2 }])];
    // IPv6 routers quote as much as fits; IPv4 from header + 8 upward
    h.quote = if v6 { Quote::Full } else { Quote::HeaderPlus(8) };
    match shape % NSHAPES {
        0 => {}
        1 => {
            if !v6 {
                h.quote = Quote::HeaderPlus(28);
            }
        }
        2 => {
            if !v6 {
                h.quote = Quote::HeaderPlus(64);
            }
        }
        3 => h.quote = Quote::Full,
        4 => h.unreachable_code = Some(if v6 { 1 } else { 13 }),
        5 => h.quoted_ttl = 0,
        6 => h.zero_quoted_cksum = true,
        7 => h.rewrite_tos = Some(0x20),
        8 => h.outer_options = 4,
        9 => h.outer_options = 40,
        10 => {
            h.quote = Quote::Full;
            h.ext = Some((objs, ExtLayout::Compliant));
        }
        11 => h.ext = Some((objs, ExtLayout::Legacy128)),
        _ => {
            h.quote = Quote::Full;
            h.rewrite_tos = Some(0xfc);
            h.quoted_ttl = 0;
        }
    }
    h
}

#[derive(Debug, Clone)]
struct Sweep {
    cell: Cell,
    init: u16,
    rounds: usize,
    offset: usize,
    /// None = hops answer; Some(true) = target at distance 1 answers (one probe per round)
    target_mode: bool,
    alter: Option<Alter>,
    packet_size: u16,
}

fn sweep_params(s: &Sweep) -> TraceParams {
    if s.target_mode {
        TraceParams {
            first_ttl: 1,
            max_ttl: 1,
            max_inflight: 24,
            rounds: s.rounds,
            initial_sequence: s.init,
            read_timeout: Duration::from_micros(10),
            min_round: Duration::ZERO,
            max_round: Duration::from_micros(100),
            grace: Duration::ZERO,
            tcp_connect_timeout: Duration::from_micros(500),
            packet_size: s.packet_size,
            pattern: 0x5a,
            tos: 0x10,
            ..TraceParams::default()
        }
    } else {
        TraceParams {
            first_ttl: 1,
            max_ttl: 254,
            max_inflight: 255,
            rounds: s.rounds,
            initial_sequence: s.init,
            read_timeout: Duration::from_micros(10),
            min_round: Duration::from_micros(258),
            max_round: Duration::from_micros(258),
            grace: Duration::ZERO,
            tcp_connect_timeout: Duration::from_micros(500),
            packet_size: s.packet_size,
            pattern: 0x5a,
            tos: 0x10,
            ..TraceParams::default()
        }
    }
}

fn sweep_topo(s: &Sweep) -> Topo {
    if s.target_mode {
        Topo { hops: vec![], target: Target::Answers, target_quote: Quote::Full }
    } else {
        let hops = (1..=254u8)
            .map(|t| {
                let mut h = shaped_hop(&s.cell, t, usize::from(t) - 1 + s.offset);
                h.alter = s.alter;
                h
            })
            .collect();
        Topo { hops, target: Target::Silent, target_quote: Quote::Full }
    }
}

fn alter_applies(cell: &Cell, a: Alter) -> bool {
    match a {
        Alter::DestAddr | Alter::FixedPort | Alter::Protocol => cell.proto != Proto::Icmp || a == Alter::Protocol,
        Alter::FixedPortDest => cell.proto != Proto::Icmp && cell.ports == Ports::FixedBoth,
        Alter::FlowPort => cell.proto == Proto::Udp && cell.strategy != MultipathStrategy::Classic && cell.ports != Ports::FixedBoth,
        Alter::Magic | Alter::MagicShort(_) => cell.proto == Proto::Udp && cell.strategy == MultipathStrategy::Dublin && cell.v6,
        Alter::IcmpId | Alter::IcmpIdZero => cell.proto == Proto::Icmp,
    }
}

struct SweepResult {
    probes: u64,
    completed: u64,
    seqs: std::collections::BTreeSet<u16>,
    bad: Vec<(String, String)>,
    flow_port_accepted: u64,
}

fn run_sweep(s: &Sweep) -> SweepResult {
    let p = sweep_params(s);
    let mut net = drive::net_cfg(&s.cell, &p, sweep_topo(s), Menu::default());
    net.delta_ns = 1_000;
    let o = drive::run_trace(&s.cell, &p, net, Chooser::new(&[], 0));
    let mut r = SweepResult { probes: 0, completed: 0, seqs: Default::default(), bad: vec![], flow_port_accepted: 0 };
    if let Some(pn) = &o.panic {
        r.bad.push((pn.key(), format!("{} at {}:{}", pn.message, pn.file, pn.line)));
        return r;
    }
    if let Err(e) = &o.result {
        r.bad.push(("run-error".into(), e.clone()));
    }
    if o.world.publishes.len() != p.rounds {
        r.bad.push(("round-count".into(), format!("{} of {}", o.world.publishes.len(), p.rounds)));
    }
    let ix = GtIndex::build(&o.world);
    for (ri, publ) in o.world.publishes.iter().enumerate() {
        for slot in &publ.probes {
            r.probes += 1;
            match slot {
                ProbeStatus::Complete(c) => {
                    r.completed += 1;
                    r.seqs.insert(c.sequence.0);
                }
                ProbeStatus::Awaited(a) => {
                    r.seqs.insert(a.sequence.0);
                }
                _ => {}
            }
        }
        if s.alter == Some(Alter::FlowPort) {
            // scoping decision (DESIGN.md 5.3): the per-round flow port is not validated by the
            // code; count, do not judge
            r.flow_port_accepted += publ.probes.iter().filter(|s| matches!(s, ProbeStatus::Complete(_))).count() as u64;
            continue;
        }
        let discrepancies = c01::check_round_ix(&o.world, &ix, ri);
        if !discrepancies.is_empty() {
            // name the shape of the first offending slot
            for (k, d) in discrepancies.into_iter().take(3) {
                r.bad.push((k, d));
            }
        }
        if !s.target_mode && s.alter.is_none() && publ.probes.len() != 254 {
            r.bad.push(("round-size".into(), format!("round {ri}: {} probes", publ.probes.len())));
        }
    }
    r
}

/// TCP probes whose local port is taken are re-issued under the next sequence number: the
/// re-issued probe is a probe the tracer emits, and its answers must be recognised as its own.
fn reissue_menu() -> Menu {
    Menu { delay: true, bind_faults: vec![crate::simnet::EADDRINUSE], connect_faults: vec![crate::simnet::EADDRINUSE], ..Menu::default() }
}

fn table_pressure_run(t: &c01::Task) -> (drive::RunOutcome, Vec<(String, String)>) {
    let topo = drive::topo_named(&t.cell, t.topo);
    let mut net = drive::net_cfg(&t.cell, &t.params, topo, Menu::default());
    net.tcp_rtt_ns = Some(35_000);
    let o = drive::run_trace(&t.cell, &t.params, net, Chooser::new(&[], 0));
    let mut bad = c01::judge(t, &o);
    let margin = 2 * t.params.read_timeout.as_nanos() as u64;
    for (idx, ready_at) in o.world.unpolled_tcp_answers() {
        let s = &o.world.sent[idx];
        if let Some(pb) = o.world.publishes.get(s.round) {
            if ready_at + margin <= pb.time_ns {
                bad.push(("handshake-answer-never-looked-at".into(), format!("round {}: the target answered the SYN of probe ttl={} seq={:?} at t={ready_at}ns; the round was published at t={}ns and the tracer never polled that connection", s.round, s.ttl, s.seq, pb.time_ns)));
            }
        }
    }
    if o.panic.is_none() && !o.world.publishes.get(2).is_some_and(|p| p.target_found) && bad.is_empty() {
        bad.push(("MACHINERY-scenario".into(), "the target was not found in round 2 although nothing was withheld".into()));
    }
    (o, bad)
}

pub fn replay(path: &str) -> i32 {
    let s = std::fs::read_to_string(path).expect("MACHINERY: cannot read replay file");
    let v: Value = serde_json::from_str(&s).expect("MACHINERY: replay JSON");
    let r = if v.get("replay").is_some() { &v["replay"] } else { &v };
    if r["check"].as_str() == Some("C02x") {
        return c01::replay_as(path, "C02");
    }
    if r["check"].as_str() == Some("C02p") {
        let (t, _) = c01::load_task(path);
        let (o, bad) = table_pressure_run(&t);
        c01::print_trace(&o);
        for (k, d) in &bad {
            println!("DISCREPANCY {k}: {d}");
        }
        if bad.is_empty() {
            println!("replay: property held");
            return 0;
        }
        println!("VIOLATION property=C02 replay={path}");
        return 1;
    }
    if r["check"].as_str() == Some("C02r") {
        return c01::replay_as_menu(path, "C02", reissue_menu());
    }
    let alter = match r["alter"].as_str().unwrap_or("None") {
        "Some(DestAddr)" => Some(Alter::DestAddr),
        "Some(FixedPort)" => Some(Alter::FixedPort),
        "Some(FlowPort)" => Some(Alter::FlowPort),
        "Some(FixedPortDest)" => Some(Alter::FixedPortDest),
        "Some(Protocol)" => Some(Alter::Protocol),
        "Some(Magic)" => Some(Alter::Magic),
        "Some(IcmpId)" => Some(Alter::IcmpId),
        "Some(IcmpIdZero)" => Some(Alter::IcmpIdZero),
        x if x.starts_with("Some(MagicShort(") => Some(Alter::MagicShort(x.trim_start_matches("Some(MagicShort(").trim_end_matches("))").parse().expect("MACHINERY: MagicShort"))),
        _ => None,
    };
    let sw = Sweep {
        cell: all_cells()[r["cell_index"].as_u64().unwrap() as usize],
        init: r["initial_sequence"].as_u64().unwrap() as u16,
        rounds: r["rounds"].as_u64().unwrap() as usize,
        offset: r["shape_offset"].as_u64().unwrap() as usize,
        target_mode: r["target_mode"].as_bool().unwrap(),
        alter,
        packet_size: r["packet_size"].as_u64().unwrap() as u16,
    };
    println!("replay C02: {sw:?}");
    let res = run_sweep(&sw);
    println!("{} probes, {} recognised, {} distinct sequences", res.probes, res.completed, res.seqs.len());
    for (k, d) in res.bad.iter().take(10) {
        println!("DISCREPANCY {k}: {d}");
    }
    if res.bad.is_empty() {
        println!("replay: property held");
        0
    } else {
        println!("VIOLATION property=C02 replay={path}");
        1
    }
}

pub fn run(args: &Args) -> i32 {
    if let Some(path) = &args.replay {
        return replay(path);
    }
    let tier = args.tier;
    let mut rep = Report::new("C02", tier, "exploration");
    let mut sweeps: Vec<Sweep> = vec![];
    for cell in all_cells() {
        let dublin6 = cell.proto == Proto::Udp && cell.strategy == MultipathStrategy::Dublin && cell.v6;
        let size = if cell.v6 { 96 } else { 84 };
        // rounds needed to go through the whole sequence space and wrap once
        let full_rounds = if dublin6 { 8 } else { (65023 + 253) / 254 + 3 };
        let offsets: Vec<usize> = if tier == Tier::Thorough { (0..NSHAPES).collect() } else { vec![usize::from(cell.ext) * 5 + usize::from(!cell.privileged) * 3] };
        for &offset in &offsets {
            sweeps.push(Sweep { cell, init: 0, rounds: full_rounds, offset, target_mode: false, alter: None, packet_size: size });
        }
        // boundary initial sequences (allocator limits), a few rounds each, rotating shapes
        for (k, init) in [33434u16, 63999, 64000, 64257, 64510, 64511].into_iter().enumerate() {
            sweeps.push(Sweep { cell, init, rounds: if dublin6 { 5 } else { 6 }, offset: k * 3 + 1, target_mode: false, alter: None, packet_size: size });
        }
        // large probes: quotation truncated by the 1024-octet receive buffer (IPv6) / 548 (IPv4)
        if cell.proto != Proto::Tcp {
            sweeps.push(Sweep { cell, init: 1000, rounds: 2, offset: 3, target_mode: false, alter: None, packet_size: 1024 });
        }
        // target-originated answers: Echo Reply / port unreachable / SYN-ACK, one probe per round
        let target_rounds = if tier == Tier::Thorough { if dublin6 { 600 } else { 65023 + 260 } } else if dublin6 { 600 } else { 3000 };
        for init in if tier == Tier::Thorough { vec![0u16] } else { vec![0u16, 31000, 64511] } {
            sweeps.push(Sweep { cell, init, rounds: target_rounds.min(if init == 64511 { 1200 } else { usize::MAX }), offset: 0, target_mode: true, alter: None, packet_size: size });
        }
        // negative half
        for a in [
            Alter::DestAddr, Alter::FixedPort, Alter::FixedPortDest, Alter::Protocol, Alter::Magic, Alter::IcmpId, Alter::IcmpIdZero, Alter::FlowPort,
            Alter::MagicShort(0), Alter::MagicShort(1), Alter::MagicShort(2), Alter::MagicShort(3), Alter::MagicShort(4), Alter::MagicShort(5),
        ] {
            if !alter_applies(&cell, a) {
                continue;
            }
            if tier == Tier::Thorough {
                sweeps.push(Sweep { cell, init: 0, rounds: full_rounds, offset: 3, target_mode: false, alter: Some(a), packet_size: size });
            } else {
                for init in [0u16, 33434, 64511] {
                    sweeps.push(Sweep { cell, init, rounds: 3, offset: 3, target_mode: false, alter: Some(a), packet_size: size });
                }
            }
        }
    }
    let findings: Mutex<BTreeMap<String, Finding>> = Mutex::new(BTreeMap::new());
    let totals = Mutex::new((0u64, 0u64, 0u64, 0u64, BTreeMap::<String, std::collections::BTreeSet<u16>>::new(), vec![]));
    mc::par_for(sweeps.len(), mc::workers(), |si| {
        let s = &sweeps[si];
        let r = run_sweep(s);
        let mut t = totals.lock().unwrap();
        t.0 += r.probes;
        t.1 += r.completed;
        if s.alter.is_some() && s.alter != Some(Alter::FlowPort) {
            t.2 += r.probes;
        }
        t.3 += r.flow_port_accepted;
        if s.alter.is_none() {
            t.4.entry(s.cell.name()).or_default().extend(r.seqs.iter());
        }
        if t.5.len() < 3 && si % 211 == 5 {
            t.5.push(json!({"cell": s.cell.name(), "initial_sequence": s.init, "rounds": s.rounds, "shape_offset": s.offset, "target_mode": s.target_mode, "alter": format!("{:?}", s.alter), "probes": r.probes, "completed": r.completed}));
        }
        drop(t);
        if !r.bad.is_empty() {
            let mut g = findings.lock().unwrap();
            for (k, d) in r.bad {
                let half = match s.alter {
                    None => "positive".to_string(),
                    Some(a) => format!("altered-{a:?}"),
                };
                let key = format!("{k}:{half}@{}", s.cell.name().split('/').take(4).collect::<Vec<_>>().join("/"));
                let e = g.entry(key.clone()).or_insert_with(|| Finding {
                    key,
                    detail: format!("[{} init={} rounds={} shape_offset={} ({}) target_mode={} alter={:?} size={}] {d}", s.cell.name(), s.init, s.rounds, s.offset, shape_name(s.offset), s.target_mode, s.alter, s.packet_size),
                    replay: json!({"check":"C02","cell":s.cell.name(),"cell_index":c01::cell_index(&s.cell),"initial_sequence":s.init,"rounds":s.rounds,"shape_offset":s.offset,"target_mode":s.target_mode,"alter":format!("{:?}", s.alter),"packet_size":s.packet_size}),
                    weight: (0, s.rounds),
                    count: 0,
                });
                e.count += 1;
            }
        }
    });
    let (probes, completed, neg, flow_port, seqs, samples) = totals.into_inner().unwrap();
    let min_cov = seqs.values().map(std::collections::BTreeSet::len).min().unwrap_or(0);
    let full_cov = seqs.values().filter(|s| s.len() >= 65023).count();
    // TCP connection attempts that expire while younger attempts complete: the SYN-ACK / RST of the
    // younger attempt must still be attributed to the probe that elicited it (ground-truth judge of C01)
    let xtasks = c01::tcp_expiry_tasks(if tier == Tier::Thorough { 3 } else { 2 });
    let xagg = Mutex::new((mc::ExploreStats::default(), 0u64));
    mc::par_for(xtasks.len(), mc::workers(), |ti| {
        let t = &xtasks[ti];
        let mut local: BTreeMap<String, Finding> = BTreeMap::new();
        let mut answers = 0u64;
        let stats = mc::explore(t.bound, 400, &mut |ch| {
            let c = std::mem::replace(ch, Chooser::new(&[], 0));
            let o = c01::run_once(t, c);
            *ch = o.world.chooser.clone();
            answers += o.world.deliveries.iter().filter(|d| d.genuine).count() as u64;
            for (k, detail) in c01::judge(t, &o) {
                let key = format!("tcp-expiry:{k}");
                let e = local.entry(key.clone()).or_insert_with(|| Finding { key, detail: format!("[{} {} tcp_connect_timeout={:?} choices={:?}] {detail}", t.cell.name(), t.topo, t.params.tcp_connect_timeout, ch.choices), replay: c01::replay_json("C02x", t, &ch.choices), weight: (ch.deviations(), ch.choices.len()), count: 0 });
                e.count += 1;
            }
            local.len() < 20
        });
        let mut a = xagg.lock().unwrap();
        a.0.merge(&stats);
        a.1 += answers;
        drop(a);
        let mut f = findings.lock().unwrap();
        for (k, v) in local {
            match f.get_mut(&k) {
                Some(old) => old.count += v.count,
                None => {
                    f.insert(k, v);
                }
            }
        }
    });
    // re-issued TCP probes (local port in use at bind / connect): every answer to a re-issued probe
    // is attributed to it (same ground-truth judge)
    let rtasks: Vec<c01::Task> = all_cells()
        .into_iter()
        .filter(|c| c.proto == Proto::Tcp && !c.ext)
        .flat_map(|cell| {
            ["L2", "L3", "silent-mid"].into_iter().map(move |topo| {
                let mut p = TraceParams::default();
                p.packet_size = if cell.v6 { 96 } else { 84 };
                c01::Task { cell, topo, params: p, bound: if tier == Tier::Thorough { 3 } else { 2 } }
            })
        })
        .collect();
    let ragg = Mutex::new((mc::ExploreStats::default(), 0u64));
    mc::par_for(rtasks.len(), mc::workers(), |ti| {
        let t = &rtasks[ti];
        let mut local: BTreeMap<String, Finding> = BTreeMap::new();
        let mut reissued_answered = 0u64;
        let stats = mc::explore(t.bound, 400, &mut |ch| {
            let c = std::mem::replace(ch, Chooser::new(&[], 0));
            let o = c01::run_once_menu(t, reissue_menu(), c);
            *ch = o.world.chooser.clone();
            if o.world.attempts.iter().any(|a| matches!(a.outcome, crate::simnet::AttemptOutcome::Fault { .. })) {
                reissued_answered += o.world.deliveries.iter().filter(|d| d.genuine).count() as u64;
            }
            for (k, detail) in c01::judge(t, &o) {
                let key = format!("tcp-reissue:{k}");
                let e = local.entry(key.clone()).or_insert_with(|| Finding { key, detail: format!("[{} {} choices={:?}] {detail}", t.cell.name(), t.topo, ch.choices), replay: c01::replay_json("C02r", t, &ch.choices), weight: (ch.deviations(), ch.choices.len()), count: 0 });
                e.count += 1;
            }
            local.len() < 20
        });
        let mut a = ragg.lock().unwrap();
        a.0.merge(&stats);
        a.1 += reissued_answered;
        drop(a);
        let mut f = findings.lock().unwrap();
        for (k, v) in local {
            match f.get_mut(&k) {
                Some(old) => old.count += v.count,
                None => {
                    f.insert(k, v);
                }
            }
        }
    });
    // the channel's table of outstanding TCP connection attempts under pressure: two silent rounds of
    // 254 attempts with a long connect timeout fill it (256 entries), then the target (distance 100)
    // starts answering with a handshake round-trip of 3.5 send slots - every attempt started from then on
    // evicts another.  Judge: ground truth + "no handshake answer that reached this host well
    // before its round was published was left unlooked-at".
    let mut pressure_runs = 0u64;
    let mut pressure_answers = 0u64;
    for cell in all_cells().into_iter().filter(|c| c.proto == Proto::Tcp && !c.ext) {
        let p = TraceParams {
            rounds: 4,
            max_ttl: 254,
            max_inflight: 255,
            read_timeout: Duration::from_micros(10),
            min_round: Duration::from_micros(10 * 260),
            max_round: Duration::from_micros(10 * 260),
            grace: Duration::from_micros(1),
            tcp_connect_timeout: Duration::from_millis(20),
            packet_size: if cell.v6 { 96 } else { 84 },
            ..TraceParams::default()
        };
        let t = c01::Task { cell, topo: "far-target-from-round-2", params: p.clone(), bound: 0 };
        let (o, bad) = table_pressure_run(&t);
        pressure_runs += 1;
        pressure_answers += o.world.deliveries.iter().filter(|d| d.genuine).count() as u64;
        let mut f = findings.lock().unwrap();
        for (k, detail) in bad {
            let key = format!("tcp-table-pressure:{k}");
            f.entry(key.clone()).or_insert_with(|| Finding { key, detail: format!("[{} far-target-from-round-2] {detail}", cell.name()), replay: c01::replay_json("C02p", &t, &[]), weight: (0, 0), count: 1 });
        }
    }
    rep.set("tcp_table_pressure_runs", json!(pressure_runs));
    rep.set("tcp_table_pressure_handshake_answers_recognised", json!(pressure_answers));
    let (rstats, ranswers) = ragg.into_inner().unwrap();
    rep.set("tcp_reissue_executions", json!(rstats.executions));
    rep.set("tcp_reissue_answers_checked_in_runs_with_a_reissue", json!(ranswers));
    let (xstats, xanswers) = xagg.into_inner().unwrap();
    rep.set("tcp_expiry_executions", json!(xstats.executions));
    rep.set("tcp_expiry_answers_checked", json!(xanswers));
    rep.merge_findings(findings.into_inner().unwrap());
    rep.set("evaluations", json!(probes));
    rep.set("distinct_nontrivial", json!(completed + neg));
    rep.set("probes_answered_and_recognised", json!(completed));
    rep.set("altered_quotations_delivered", json!(neg));
    rep.set("sweeps", json!(sweeps.len()));
    rep.set("cells", json!(seqs.len()));
    rep.set("min_distinct_sequences_per_cell", json!(min_cov));
    rep.set("cells_with_full_sequence_range", json!(full_cov));
    rep.observe("quotations_with_altered_flow_port_accepted", json!(flow_port));
    rep.set("rule", json!(format!("56 cells; the real strategy (first_ttl 1, max_ttl 254, max_inflight 255, initial_sequence 0) runs until the allocator wraps, so every sequence it can issue (0..=65276, Dublin/IPv6: 0..=765) is emitted by real dispatch code and answered at once by a hop with quotation shape (ttl-1+offset) mod {NSHAPES} ({{hdr+8,+28,+64,full,unreachable,ttl 0,cksum 0,tos,outer IHL 6/15,RFC4884 compliant/legacy,combo}}); quick: one shape offset per cell, thorough: all {NSHAPES} offsets = full product sequence x shape; + boundary initial sequences, 1024-octet probes (truncated quotations), target-originated answers one probe per round (Echo Reply / port unreachable / SYN-ACK). Oracle: ground-truth check of every published slot (C01's). Negative half: every response altered in one identity field (destination, pinned port - each of the two when both are pinned -, protocol, Dublin magic - one octet flipped, or a foreign datagram carrying only the first 0..5 octets of it -, ICMP identifier - to another value and to zero -): no slot may complete. + tcp cells x {{L2,L3,silent-mid,dup}} x connect timeout {{5,15,25,35}} ms, all executions with <= 2 (3 thorough) deviations (attempts expiring while younger ones complete); + tcp cells x {{L2,L3,silent-mid}} with address-in-use offered at every bind and connect (the probe is re-issued under the next sequence) and delays, same bound: answers to re-issued probes are attributed to them; + tcp cells, table of outstanding connection attempts full (two silent rounds of 254 attempts, connect timeout 20 ms), then the target at distance 100 answers with a handshake round-trip of 3.5 send slots: ground truth + no handshake answer that reached the host two read timeouts before its round was published is left unlooked-at. distinct_nontrivial = recognised answers + altered quotations")));
    for s in samples {
        rep.sample(s);
    }
    rep.assumptions = vec![c01::ASSUME.into(), "'other ports' = ports pinned by the configuration; the per-round flow port is an observation (DESIGN.md 5.3)".into()];
    rep.finish()
}

#[allow(dead_code)]
fn unused(_: Value) {}
