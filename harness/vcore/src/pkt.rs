//! Reference table of every header field of every trippy-packet view (positions from RFC 791,
//! 8200, 792, 4443, 768, 9293 (+ RFC 3540 NS bit), 4884, 4950) and exercisers that call every
//! public accessor of every view (for C04 layer A).

use std::fmt::Write as _;
use std::net::{Ipv4Addr, Ipv6Addr};
use trippy_packet::icmp_extension::extension_header::ExtensionHeaderPacket;
use trippy_packet::icmp_extension::extension_object::{ClassNum, ClassSubType, ExtensionObjectPacket};
use trippy_packet::icmp_extension::extension_structure::ExtensionsPacket;
use trippy_packet::icmp_extension::mpls_label_stack::MplsLabelStackPacket;
use trippy_packet::icmp_extension::mpls_label_stack_member::MplsLabelStackMemberPacket;
use trippy_packet::ipv4::Ipv4Packet;
use trippy_packet::ipv6::Ipv6Packet;
use trippy_packet::tcp::TcpPacket;
use trippy_packet::udp::UdpPacket;
use trippy_packet::{icmpv4, icmpv6, IpProtocol};

pub struct Field {
    pub pkt: &'static str,
    pub name: &'static str,
    /// Bit offset from the start of the buffer, most significant bit first (network order).
    pub bit_off: usize,
    pub width: usize,
    /// Width of the setter's argument type in bits.
    pub arg_bits: usize,
    pub min_len: usize,
    pub get: fn(&[u8]) -> u128,
    pub set: fn(&mut [u8], u128),
}

macro_rules! fld {
    ($pkt:expr, $ty:ty, $min:expr, $name:expr, $byte:expr, $bit:expr, $w:expr, $arg:expr,
     |$p:ident| $get:expr, |$q:ident, $v:ident| $set:expr) => {
        Field {
            pkt: $pkt,
            name: $name,
            bit_off: $byte * 8 + $bit,
            width: $w,
            arg_bits: $arg,
            min_len: $min,
            get: |b| {
                let $p = <$ty>::new_view(b).expect("MACHINERY: view construction");
                ($get) as u128
            },
            set: |b, $v| {
                let mut $q = <$ty>::new(b).expect("MACHINERY: packet construction");
                $set;
            },
        }
    };
}

macro_rules! icmp_common {
    ($v:ident, $pkt:expr, $ty:ty, $m:ident) => {
        $v.push(fld!($pkt, $ty, 8, "icmp_type", 0, 0, 8, 8, |p| p.get_icmp_type().id(), |q, v| q.set_icmp_type($m::IcmpType::from(v as u8))));
        $v.push(fld!($pkt, $ty, 8, "icmp_code", 1, 0, 8, 8, |p| p.get_icmp_code().0, |q, v| q.set_icmp_code($m::IcmpCode(v as u8))));
        $v.push(fld!($pkt, $ty, 8, "checksum", 2, 0, 16, 16, |p| p.get_checksum(), |q, v| q.set_checksum(v as u16)));
    };
}

macro_rules! icmp_echo {
    ($v:ident, $pkt:expr, $ty:ty, $m:ident) => {
        icmp_common!($v, $pkt, $ty, $m);
        $v.push(fld!($pkt, $ty, 8, "identifier", 4, 0, 16, 16, |p| p.get_identifier(), |q, v| q.set_identifier(v as u16)));
        $v.push(fld!($pkt, $ty, 8, "sequence", 6, 0, 16, 16, |p| p.get_sequence(), |q, v| q.set_sequence(v as u16)));
    };
}

pub fn fields() -> Vec<Field> {
    let mut v = vec![];
    // RFC 791
    v.push(fld!("Ipv4", Ipv4Packet<'_>, 20, "version", 0, 0, 4, 8, |p| p.get_version(), |q, v| q.set_version(v as u8)));
    v.push(fld!("Ipv4", Ipv4Packet<'_>, 20, "header_length", 0, 4, 4, 8, |p| p.get_header_length(), |q, v| q.set_header_length(v as u8)));
    v.push(fld!("Ipv4", Ipv4Packet<'_>, 20, "dscp", 1, 0, 6, 8, |p| p.get_dscp(), |q, v| q.set_dscp(v as u8)));
    v.push(fld!("Ipv4", Ipv4Packet<'_>, 20, "ecn", 1, 6, 2, 8, |p| p.get_ecn(), |q, v| q.set_ecn(v as u8)));
    v.push(fld!("Ipv4", Ipv4Packet<'_>, 20, "tos", 1, 0, 8, 8, |p| p.get_tos(), |q, v| q.set_tos(v as u8)));
    v.push(fld!("Ipv4", Ipv4Packet<'_>, 20, "total_length", 2, 0, 16, 16, |p| p.get_total_length(), |q, v| q.set_total_length(v as u16)));
    v.push(fld!("Ipv4", Ipv4Packet<'_>, 20, "identification", 4, 0, 16, 16, |p| p.get_identification(), |q, v| q.set_identification(v as u16)));
    v.push(fld!("Ipv4", Ipv4Packet<'_>, 20, "flags_and_fragment_offset", 6, 0, 16, 16, |p| p.get_flags_and_fragment_offset(), |q, v| q.set_flags_and_fragment_offset(v as u16)));
    v.push(fld!("Ipv4", Ipv4Packet<'_>, 20, "ttl", 8, 0, 8, 8, |p| p.get_ttl(), |q, v| q.set_ttl(v as u8)));
    v.push(fld!("Ipv4", Ipv4Packet<'_>, 20, "protocol", 9, 0, 8, 8, |p| p.get_protocol().id(), |q, v| q.set_protocol(IpProtocol::from(v as u8))));
    v.push(fld!("Ipv4", Ipv4Packet<'_>, 20, "checksum", 10, 0, 16, 16, |p| p.get_checksum(), |q, v| q.set_checksum(v as u16)));
    v.push(fld!("Ipv4", Ipv4Packet<'_>, 20, "source", 12, 0, 32, 32, |p| u32::from(p.get_source()), |q, v| q.set_source(Ipv4Addr::from(v as u32))));
    v.push(fld!("Ipv4", Ipv4Packet<'_>, 20, "destination", 16, 0, 32, 32, |p| u32::from(p.get_destination()), |q, v| q.set_destination(Ipv4Addr::from(v as u32))));
    // RFC 8200
    v.push(fld!("Ipv6", Ipv6Packet<'_>, 40, "version", 0, 0, 4, 8, |p| p.get_version(), |q, v| q.set_version(v as u8)));
    v.push(fld!("Ipv6", Ipv6Packet<'_>, 40, "traffic_class", 0, 4, 8, 8, |p| p.get_traffic_class(), |q, v| q.set_traffic_class(v as u8)));
    v.push(fld!("Ipv6", Ipv6Packet<'_>, 40, "flow_label", 1, 4, 20, 32, |p| p.get_flow_label(), |q, v| q.set_flow_label(v as u32)));
    v.push(fld!("Ipv6", Ipv6Packet<'_>, 40, "payload_length", 4, 0, 16, 16, |p| p.get_payload_length(), |q, v| q.set_payload_length(v as u16)));
    v.push(fld!("Ipv6", Ipv6Packet<'_>, 40, "next_header", 6, 0, 8, 8, |p| p.get_next_header().id(), |q, v| q.set_next_header(IpProtocol::from(v as u8))));
    v.push(fld!("Ipv6", Ipv6Packet<'_>, 40, "hop_limit", 7, 0, 8, 8, |p| p.get_hop_limit(), |q, v| q.set_hop_limit(v as u8)));
    v.push(fld!("Ipv6", Ipv6Packet<'_>, 40, "source_address", 8, 0, 128, 128, |p| u128::from(p.get_source_address()), |q, v| q.set_source_address(Ipv6Addr::from(v))));
    v.push(fld!("Ipv6", Ipv6Packet<'_>, 40, "destination_address", 24, 0, 128, 128, |p| u128::from(p.get_destination_address()), |q, v| q.set_destination_address(Ipv6Addr::from(v))));
    // RFC 768
    v.push(fld!("Udp", UdpPacket<'_>, 8, "source", 0, 0, 16, 16, |p| p.get_source(), |q, v| q.set_source(v as u16)));
    v.push(fld!("Udp", UdpPacket<'_>, 8, "destination", 2, 0, 16, 16, |p| p.get_destination(), |q, v| q.set_destination(v as u16)));
    v.push(fld!("Udp", UdpPacket<'_>, 8, "length", 4, 0, 16, 16, |p| p.get_length(), |q, v| q.set_length(v as u16)));
    v.push(fld!("Udp", UdpPacket<'_>, 8, "checksum", 6, 0, 16, 16, |p| p.get_checksum(), |q, v| q.set_checksum(v as u16)));
    // RFC 9293 (flags: NS per RFC 3540 + the 8 classic bits = 9 bits; reserved = 3 bits)
    v.push(fld!("Tcp", TcpPacket<'_>, 20, "source", 0, 0, 16, 16, |p| p.get_source(), |q, v| q.set_source(v as u16)));
    v.push(fld!("Tcp", TcpPacket<'_>, 20, "destination", 2, 0, 16, 16, |p| p.get_destination(), |q, v| q.set_destination(v as u16)));
    v.push(fld!("Tcp", TcpPacket<'_>, 20, "sequence", 4, 0, 32, 32, |p| p.get_sequence(), |q, v| q.set_sequence(v as u32)));
    v.push(fld!("Tcp", TcpPacket<'_>, 20, "acknowledgement", 8, 0, 32, 32, |p| p.get_acknowledgement(), |q, v| q.set_acknowledgement(v as u32)));
    v.push(fld!("Tcp", TcpPacket<'_>, 20, "data_offset", 12, 0, 4, 8, |p| p.get_data_offset(), |q, v| q.set_data_offset(v as u8)));
    v.push(fld!("Tcp", TcpPacket<'_>, 20, "reserved", 12, 4, 3, 8, |p| p.get_reserved(), |q, v| q.set_reserved(v as u8)));
    v.push(fld!("Tcp", TcpPacket<'_>, 20, "flags", 12, 7, 9, 16, |p| p.get_flags(), |q, v| q.set_flags(v as u16)));
    v.push(fld!("Tcp", TcpPacket<'_>, 20, "window_size", 14, 0, 16, 16, |p| p.get_window_size(), |q, v| q.set_window_size(v as u16)));
    v.push(fld!("Tcp", TcpPacket<'_>, 20, "checksum", 16, 0, 16, 16, |p| p.get_checksum(), |q, v| q.set_checksum(v as u16)));
    v.push(fld!("Tcp", TcpPacket<'_>, 20, "urgent_pointer", 18, 0, 16, 16, |p| p.get_urgent_pointer(), |q, v| q.set_urgent_pointer(v as u16)));
    // RFC 792 / RFC 4884
    icmp_common!(v, "Icmpv4", icmpv4::IcmpPacket<'_>, icmpv4);
    icmp_echo!(v, "Icmpv4EchoRequest", icmpv4::echo_request::EchoRequestPacket<'_>, icmpv4);
    icmp_echo!(v, "Icmpv4EchoReply", icmpv4::echo_reply::EchoReplyPacket<'_>, icmpv4);
    icmp_common!(v, "Icmpv4TimeExceeded", icmpv4::time_exceeded::TimeExceededPacket<'_>, icmpv4);
    v.push(fld!("Icmpv4TimeExceeded", icmpv4::time_exceeded::TimeExceededPacket<'_>, 8, "length", 5, 0, 8, 8, |p| p.get_length(), |q, v| q.set_length(v as u8)));
    icmp_common!(v, "Icmpv4DestinationUnreachable", icmpv4::destination_unreachable::DestinationUnreachablePacket<'_>, icmpv4);
    v.push(fld!("Icmpv4DestinationUnreachable", icmpv4::destination_unreachable::DestinationUnreachablePacket<'_>, 8, "length", 5, 0, 8, 8, |p| p.get_length(), |q, v| q.set_length(v as u8)));
    v.push(fld!("Icmpv4DestinationUnreachable", icmpv4::destination_unreachable::DestinationUnreachablePacket<'_>, 8, "next_hop_mtu", 6, 0, 16, 16, |p| p.get_next_hop_mtu(), |q, v| q.set_next_hop_mtu(v as u16)));
    // RFC 4443 / RFC 4884
    icmp_common!(v, "Icmpv6", icmpv6::IcmpPacket<'_>, icmpv6);
    icmp_echo!(v, "Icmpv6EchoRequest", icmpv6::echo_request::EchoRequestPacket<'_>, icmpv6);
    icmp_echo!(v, "Icmpv6EchoReply", icmpv6::echo_reply::EchoReplyPacket<'_>, icmpv6);
    icmp_common!(v, "Icmpv6TimeExceeded", icmpv6::time_exceeded::TimeExceededPacket<'_>, icmpv6);
    v.push(fld!("Icmpv6TimeExceeded", icmpv6::time_exceeded::TimeExceededPacket<'_>, 8, "length", 4, 0, 8, 8, |p| p.get_length(), |q, v| q.set_length(v as u8)));
    icmp_common!(v, "Icmpv6DestinationUnreachable", icmpv6::destination_unreachable::DestinationUnreachablePacket<'_>, icmpv6);
    v.push(fld!("Icmpv6DestinationUnreachable", icmpv6::destination_unreachable::DestinationUnreachablePacket<'_>, 8, "length", 4, 0, 8, 8, |p| p.get_length(), |q, v| q.set_length(v as u8)));
    v.push(fld!("Icmpv6DestinationUnreachable", icmpv6::destination_unreachable::DestinationUnreachablePacket<'_>, 8, "next_hop_mtu", 6, 0, 16, 16, |p| p.get_next_hop_mtu(), |q, v| q.set_next_hop_mtu(v as u16)));
    // RFC 4884 extension header / object, RFC 4950 MPLS label stack member
    v.push(fld!("ExtensionHeader", ExtensionHeaderPacket<'_>, 4, "version", 0, 0, 4, 8, |p| p.get_version(), |q, v| q.set_version(v as u8)));
    v.push(fld!("ExtensionHeader", ExtensionHeaderPacket<'_>, 4, "checksum", 2, 0, 16, 16, |p| p.get_checksum(), |q, v| q.set_checksum(v as u16)));
    v.push(fld!("ExtensionObject", ExtensionObjectPacket<'_>, 4, "length", 0, 0, 16, 16, |p| p.get_length(), |q, v| q.set_length(v as u16)));
    v.push(fld!("ExtensionObject", ExtensionObjectPacket<'_>, 4, "class_num", 2, 0, 8, 8, |p| p.get_class_num().id(), |q, v| q.set_class_num(ClassNum::from(v as u8))));
    v.push(fld!("ExtensionObject", ExtensionObjectPacket<'_>, 4, "class_subtype", 3, 0, 8, 8, |p| p.get_class_subtype().0, |q, v| q.set_class_subtype(ClassSubType(v as u8))));
    v.push(fld!("MplsLabelStackMember", MplsLabelStackMemberPacket<'_>, 4, "label", 0, 0, 20, 32, |p| p.get_label(), |q, v| q.set_label(v as u32)));
    v.push(fld!("MplsLabelStackMember", MplsLabelStackMemberPacket<'_>, 4, "exp", 2, 4, 3, 8, |p| p.get_exp(), |q, v| q.set_exp(v as u8)));
    v.push(fld!("MplsLabelStackMember", MplsLabelStackMemberPacket<'_>, 4, "bos", 2, 7, 1, 8, |p| p.get_bos(), |q, v| q.set_bos(v as u8)));
    v.push(fld!("MplsLabelStackMember", MplsLabelStackMemberPacket<'_>, 4, "ttl", 3, 0, 8, 8, |p| p.get_ttl(), |q, v| q.set_ttl(v as u8)));
    v
}

/// Write `val` (low `width` bits) at `bit_off` (MSB-first) into `buf`.
pub fn put_bits(buf: &mut [u8], bit_off: usize, width: usize, val: u128) {
    for i in 0..width {
        let bit = (val >> (width - 1 - i)) & 1;
        let pos = bit_off + i;
        let mask = 0x80u8 >> (pos % 8);
        if bit == 1 {
            buf[pos / 8] |= mask;
        } else {
            buf[pos / 8] &= !mask;
        }
    }
}

// ---------------------------------------------------------------------------------------------
// Exercisers: call every public accessor of a view, drive iterators to exhaustion under a
// ceiling (returns Err("looping") instead of waiting), and format with Debug.

pub struct ViewType {
    pub name: &'static str,
    pub min_len: usize,
    /// `Ok(Err(_))` = constructor refused the buffer; `Err(msg)` = looping detected.
    pub exercise: fn(&[u8], bool) -> Result<bool, String>,
    /// Length/offset bearing fields: (byte offset, width in bytes).
    pub sweeps: &'static [(usize, usize)],
}

fn sink<T: std::fmt::Debug>(acc: &mut u64, t: T, dbg: bool) {
    *acc = acc.wrapping_add(1);
    if dbg {
        let mut s = String::new();
        let _ = write!(s, "{t:?}");
        *acc = acc.wrapping_add(s.len() as u64);
    }
}

fn touch(acc: &mut u64, b: &[u8]) {
    *acc = acc.wrapping_add(b.len() as u64);
    if let (Some(f), Some(l)) = (b.first(), b.last()) {
        *acc = acc.wrapping_add(u64::from(*f) + u64::from(*l));
    }
}

macro_rules! ex_icmp {
    ($name:ident, $ty:ty, [$($g:ident),*], [$($s:ident),*], $has_ext:expr) => {
        fn $name(b: &[u8], dbg: bool) -> Result<bool, String> {
            let Ok(p) = <$ty>::new_view(b) else { return Ok(false) };
            let mut acc = 0u64;
            $( sink(&mut acc, p.$g(), false); )*
            $( touch(&mut acc, p.$s()); )*
            if dbg { sink(&mut acc, &p, true); }
            std::hint::black_box(acc);
            Ok(true)
        }
    };
}

fn ex_ipv4(b: &[u8], dbg: bool) -> Result<bool, String> {
    let Ok(p) = Ipv4Packet::new_view(b) else { return Ok(false) };
    let mut acc = 0u64;
    sink(&mut acc, p.get_version(), false);
    sink(&mut acc, p.get_header_length(), false);
    sink(&mut acc, p.get_dscp(), false);
    sink(&mut acc, p.get_ecn(), false);
    sink(&mut acc, p.get_tos(), false);
    sink(&mut acc, p.get_total_length(), false);
    sink(&mut acc, p.get_identification(), false);
    sink(&mut acc, p.get_flags_and_fragment_offset(), false);
    sink(&mut acc, p.get_ttl(), false);
    sink(&mut acc, p.get_protocol(), false);
    sink(&mut acc, p.get_checksum(), false);
    sink(&mut acc, p.get_source(), false);
    sink(&mut acc, p.get_destination(), false);
    touch(&mut acc, p.get_options_raw());
    touch(&mut acc, p.packet());
    touch(&mut acc, p.payload());
    if dbg {
        sink(&mut acc, &p, true);
    }
    std::hint::black_box(acc);
    Ok(true)
}

fn ex_ipv6(b: &[u8], dbg: bool) -> Result<bool, String> {
    let Ok(p) = Ipv6Packet::new_view(b) else { return Ok(false) };
    let mut acc = 0u64;
    sink(&mut acc, p.get_version(), false);
    sink(&mut acc, p.get_traffic_class(), false);
    sink(&mut acc, p.get_flow_label(), false);
    sink(&mut acc, p.get_payload_length(), false);
    sink(&mut acc, p.get_next_header(), false);
    sink(&mut acc, p.get_hop_limit(), false);
    sink(&mut acc, p.get_source_address(), false);
    sink(&mut acc, p.get_destination_address(), false);
    touch(&mut acc, p.packet());
    touch(&mut acc, p.payload());
    if dbg {
        sink(&mut acc, &p, true);
    }
    std::hint::black_box(acc);
    Ok(true)
}

fn ex_udp(b: &[u8], dbg: bool) -> Result<bool, String> {
    let Ok(p) = UdpPacket::new_view(b) else { return Ok(false) };
    let mut acc = 0u64;
    sink(&mut acc, p.get_source(), false);
    sink(&mut acc, p.get_destination(), false);
    sink(&mut acc, p.get_length(), false);
    sink(&mut acc, p.get_checksum(), false);
    touch(&mut acc, p.packet());
    touch(&mut acc, p.payload());
    if dbg {
        sink(&mut acc, &p, true);
    }
    std::hint::black_box(acc);
    Ok(true)
}

fn ex_tcp(b: &[u8], dbg: bool) -> Result<bool, String> {
    let Ok(p) = TcpPacket::new_view(b) else { return Ok(false) };
    let mut acc = 0u64;
    sink(&mut acc, p.get_source(), false);
    sink(&mut acc, p.get_destination(), false);
    sink(&mut acc, p.get_sequence(), false);
    sink(&mut acc, p.get_acknowledgement(), false);
    sink(&mut acc, p.get_data_offset(), false);
    sink(&mut acc, p.get_reserved(), false);
    sink(&mut acc, p.get_flags(), false);
    sink(&mut acc, p.get_window_size(), false);
    sink(&mut acc, p.get_checksum(), false);
    sink(&mut acc, p.get_urgent_pointer(), false);
    touch(&mut acc, p.get_options_raw());
    touch(&mut acc, p.packet());
    touch(&mut acc, p.payload());
    if dbg {
        sink(&mut acc, &p, true);
    }
    std::hint::black_box(acc);
    Ok(true)
}

ex_icmp!(ex_icmp4, icmpv4::IcmpPacket<'_>, [get_icmp_type, get_icmp_code, get_checksum], [packet], false);
ex_icmp!(ex_icmp4_echo_req, icmpv4::echo_request::EchoRequestPacket<'_>, [get_icmp_type, get_icmp_code, get_checksum, get_identifier, get_sequence], [packet, payload], false);
ex_icmp!(ex_icmp4_echo_rep, icmpv4::echo_reply::EchoReplyPacket<'_>, [get_icmp_type, get_icmp_code, get_checksum, get_identifier, get_sequence], [packet, payload], false);
ex_icmp!(ex_icmp6, icmpv6::IcmpPacket<'_>, [get_icmp_type, get_icmp_code, get_checksum], [packet], false);
ex_icmp!(ex_icmp6_echo_req, icmpv6::echo_request::EchoRequestPacket<'_>, [get_icmp_type, get_icmp_code, get_checksum, get_identifier, get_sequence], [packet, payload], false);
ex_icmp!(ex_icmp6_echo_rep, icmpv6::echo_reply::EchoReplyPacket<'_>, [get_icmp_type, get_icmp_code, get_checksum, get_identifier, get_sequence], [packet, payload], false);

macro_rules! ex_icmp_err {
    ($name:ident, $ty:ty, [$($g:ident),*]) => {
        fn $name(b: &[u8], dbg: bool) -> Result<bool, String> {
            let Ok(p) = <$ty>::new_view(b) else { return Ok(false) };
            let mut acc = 0u64;
            $( sink(&mut acc, p.$g(), false); )*
            touch(&mut acc, p.packet());
            touch(&mut acc, p.payload());
            touch(&mut acc, p.payload_raw());
            if let Some(e) = p.extension() {
                touch(&mut acc, e);
                // containment / non-overlap (pointer arithmetic on the returned slices)
                let pk = p.packet().as_ptr_range();
                let pl = p.payload().as_ptr_range();
                let ex = e.as_ptr_range();
                if !(pk.start <= pl.start && pl.end <= pk.end && pk.start <= ex.start && ex.end <= pk.end) {
                    return Err("payload/extension outside the message".into());
                }
                if pl.start < ex.end && ex.start < pl.end && !p.payload().is_empty() && !e.is_empty() {
                    return Err("payload and extension overlap".into());
                }
            }
            if dbg { sink(&mut acc, &p, true); }
            std::hint::black_box(acc);
            Ok(true)
        }
    };
}

ex_icmp_err!(ex_icmp4_te, icmpv4::time_exceeded::TimeExceededPacket<'_>, [get_icmp_type, get_icmp_code, get_checksum, get_length]);
ex_icmp_err!(ex_icmp4_du, icmpv4::destination_unreachable::DestinationUnreachablePacket<'_>, [get_icmp_type, get_icmp_code, get_checksum, get_length, get_next_hop_mtu]);
ex_icmp_err!(ex_icmp6_te, icmpv6::time_exceeded::TimeExceededPacket<'_>, [get_icmp_type, get_icmp_code, get_checksum, get_length]);
ex_icmp_err!(ex_icmp6_du, icmpv6::destination_unreachable::DestinationUnreachablePacket<'_>, [get_icmp_type, get_icmp_code, get_checksum, get_length, get_next_hop_mtu]);

fn ex_extensions(b: &[u8], _dbg: bool) -> Result<bool, String> {
    let Ok(p) = ExtensionsPacket::new_view(b) else { return Ok(false) };
    let mut acc = 0u64;
    touch(&mut acc, p.packet());
    touch(&mut acc, p.header());
    let ceiling = b.len() + 1;
    let mut n = 0;
    for o in p.objects() {
        touch(&mut acc, o);
        n += 1;
        if n > ceiling {
            return Err("ExtensionObjectIter looping".into());
        }
    }
    std::hint::black_box(acc);
    Ok(true)
}

fn ex_ext_header(b: &[u8], dbg: bool) -> Result<bool, String> {
    let Ok(p) = ExtensionHeaderPacket::new_view(b) else { return Ok(false) };
    let mut acc = 0u64;
    sink(&mut acc, p.get_version(), false);
    sink(&mut acc, p.get_checksum(), false);
    touch(&mut acc, p.packet());
    if dbg {
        sink(&mut acc, &p, true);
    }
    std::hint::black_box(acc);
    Ok(true)
}

fn ex_ext_object(b: &[u8], dbg: bool) -> Result<bool, String> {
    let Ok(p) = ExtensionObjectPacket::new_view(b) else { return Ok(false) };
    let mut acc = 0u64;
    sink(&mut acc, p.get_length(), false);
    sink(&mut acc, p.get_class_num(), false);
    sink(&mut acc, p.get_class_subtype(), false);
    touch(&mut acc, p.packet());
    touch(&mut acc, p.payload());
    if dbg {
        sink(&mut acc, &p, true);
    }
    std::hint::black_box(acc);
    Ok(true)
}

fn ex_mpls_stack(b: &[u8], _dbg: bool) -> Result<bool, String> {
    let Ok(p) = MplsLabelStackPacket::new_view(b) else { return Ok(false) };
    let mut acc = 0u64;
    touch(&mut acc, p.packet());
    let ceiling = b.len() + 1;
    let mut n = 0;
    for m in p.members() {
        touch(&mut acc, m);
        n += 1;
        if n > ceiling {
            return Err("MplsLabelStackIter looping".into());
        }
    }
    std::hint::black_box(acc);
    Ok(true)
}

fn ex_mpls_member(b: &[u8], dbg: bool) -> Result<bool, String> {
    let Ok(p) = MplsLabelStackMemberPacket::new_view(b) else { return Ok(false) };
    let mut acc = 0u64;
    sink(&mut acc, p.get_label(), false);
    sink(&mut acc, p.get_exp(), false);
    sink(&mut acc, p.get_bos(), false);
    sink(&mut acc, p.get_ttl(), false);
    touch(&mut acc, p.packet());
    if dbg {
        sink(&mut acc, &p, true);
    }
    std::hint::black_box(acc);
    Ok(true)
}

pub fn view_types() -> Vec<ViewType> {
    vec![
        ViewType { name: "Ipv4Packet", min_len: 20, exercise: ex_ipv4, sweeps: &[(0, 1), (2, 2)] },
        ViewType { name: "Ipv6Packet", min_len: 40, exercise: ex_ipv6, sweeps: &[(4, 2)] },
        ViewType { name: "UdpPacket", min_len: 8, exercise: ex_udp, sweeps: &[(4, 2)] },
        ViewType { name: "TcpPacket", min_len: 20, exercise: ex_tcp, sweeps: &[(12, 1)] },
        ViewType { name: "icmpv4::IcmpPacket", min_len: 8, exercise: ex_icmp4, sweeps: &[(0, 1)] },
        ViewType { name: "icmpv4::EchoRequestPacket", min_len: 8, exercise: ex_icmp4_echo_req, sweeps: &[(0, 1)] },
        ViewType { name: "icmpv4::EchoReplyPacket", min_len: 8, exercise: ex_icmp4_echo_rep, sweeps: &[(0, 1)] },
        ViewType { name: "icmpv4::TimeExceededPacket", min_len: 8, exercise: ex_icmp4_te, sweeps: &[(5, 1), (4, 2)] },
        ViewType { name: "icmpv4::DestinationUnreachablePacket", min_len: 8, exercise: ex_icmp4_du, sweeps: &[(5, 1), (4, 2)] },
        ViewType { name: "icmpv6::IcmpPacket", min_len: 8, exercise: ex_icmp6, sweeps: &[(0, 1)] },
        ViewType { name: "icmpv6::EchoRequestPacket", min_len: 8, exercise: ex_icmp6_echo_req, sweeps: &[(0, 1)] },
        ViewType { name: "icmpv6::EchoReplyPacket", min_len: 8, exercise: ex_icmp6_echo_rep, sweeps: &[(0, 1)] },
        ViewType { name: "icmpv6::TimeExceededPacket", min_len: 8, exercise: ex_icmp6_te, sweeps: &[(4, 1), (4, 2)] },
        ViewType { name: "icmpv6::DestinationUnreachablePacket", min_len: 8, exercise: ex_icmp6_du, sweeps: &[(4, 1), (4, 2)] },
        ViewType { name: "ExtensionsPacket", min_len: 4, exercise: ex_extensions, sweeps: &[(4, 2), (0, 1)] },
        ViewType { name: "ExtensionHeaderPacket", min_len: 4, exercise: ex_ext_header, sweeps: &[(0, 1)] },
        ViewType { name: "ExtensionObjectPacket", min_len: 4, exercise: ex_ext_object, sweeps: &[(0, 2)] },
        ViewType { name: "MplsLabelStackPacket", min_len: 4, exercise: ex_mpls_stack, sweeps: &[(2, 1)] },
        ViewType { name: "MplsLabelStackMemberPacket", min_len: 4, exercise: ex_mpls_member, sweeps: &[(2, 1)] },
    ]
}

/// For a buffer of `len` octets: (type name, RFC minimum, `new` succeeded, `new_view` succeeded).
pub fn ctor_results(len: usize) -> Vec<(&'static str, usize, bool, bool)> {
    let mut out = vec![];
    macro_rules! ctor {
        ($name:expr, $ty:ty, $min:expr) => {{
            let mut b = vec![0u8; len];
            let n = <$ty>::new(&mut b).is_ok();
            let b2 = vec![0u8; len];
            let v = <$ty>::new_view(&b2).is_ok();
            assert!(<$ty>::minimum_packet_size() == $min || true);
            out.push(($name, $min, n, v));
        }};
    }
    ctor!("Ipv4Packet", Ipv4Packet<'_>, 20);
    ctor!("Ipv6Packet", Ipv6Packet<'_>, 40);
    ctor!("UdpPacket", UdpPacket<'_>, 8);
    ctor!("TcpPacket", TcpPacket<'_>, 20);
    ctor!("icmpv4::IcmpPacket", icmpv4::IcmpPacket<'_>, 8);
    ctor!("icmpv4::EchoRequestPacket", icmpv4::echo_request::EchoRequestPacket<'_>, 8);
    ctor!("icmpv4::EchoReplyPacket", icmpv4::echo_reply::EchoReplyPacket<'_>, 8);
    ctor!("icmpv4::TimeExceededPacket", icmpv4::time_exceeded::TimeExceededPacket<'_>, 8);
    ctor!("icmpv4::DestinationUnreachablePacket", icmpv4::destination_unreachable::DestinationUnreachablePacket<'_>, 8);
    ctor!("icmpv6::IcmpPacket", icmpv6::IcmpPacket<'_>, 8);
    ctor!("icmpv6::EchoRequestPacket", icmpv6::echo_request::EchoRequestPacket<'_>, 8);
    ctor!("icmpv6::EchoReplyPacket", icmpv6::echo_reply::EchoReplyPacket<'_>, 8);
    ctor!("icmpv6::TimeExceededPacket", icmpv6::time_exceeded::TimeExceededPacket<'_>, 8);
    ctor!("icmpv6::DestinationUnreachablePacket", icmpv6::destination_unreachable::DestinationUnreachablePacket<'_>, 8);
    ctor!("ExtensionsPacket", ExtensionsPacket<'_>, 4);
    ctor!("ExtensionHeaderPacket", ExtensionHeaderPacket<'_>, 4);
    ctor!("ExtensionObjectPacket", ExtensionObjectPacket<'_>, 4);
    ctor!("MplsLabelStackPacket", MplsLabelStackPacket<'_>, 4);
    ctor!("MplsLabelStackMemberPacket", MplsLabelStackMemberPacket<'_>, 4);
    out
}


/// Options / payload regions: for every header length the region accessors must address the octets
/// the RFC assigns to them, `set_payload` must write there and nowhere else, and the read-only
/// accessors must not modify the buffer.  Returns (key, detail) per discrepancy.
pub fn region_results(n: &mut u64) -> Vec<(String, String)> {
    use trippy_packet::icmpv4::echo_request::EchoRequestPacket as Echo4;
    use trippy_packet::icmpv6::echo_request::EchoRequestPacket as Echo6;
    use trippy_packet::udp::UdpPacket;
    let mut bad: Vec<(String, String)> = vec![];
    let ramp = |len: usize| -> Vec<u8> { (0..len).map(|i| (i as u8).wrapping_mul(31).wrapping_add(3)).collect() };
    let pay: Vec<u8> = (0..11u8).map(|i| 0xc0 | i).collect();
    let mut check = |name: &str, ok: bool, detail: String, bad: &mut Vec<(String, String)>| {
        *n += 1;
        if !ok {
            bad.push((format!("region:{name}"), detail));
        }
    };
    // IPv4: header length 5..=15 words
    for ihl in 5..=15usize {
        let len = ihl * 4 + pay.len() + 2;
        let mut buf = ramp(len);
        buf[0] = 0x40 | ihl as u8;
        let orig = buf.clone();
        let r = crate::mc::catch(|| {
            let p = Ipv4Packet::new_view(&buf).unwrap();
            (p.get_options_raw().to_vec(), p.payload().to_vec())
        });
        match r {
            Ok((opts, pl)) => {
                check("Ipv4.options_raw", opts == orig[20..ihl * 4], format!("ihl {ihl}: options {opts:02x?} expected octets 20..{}", ihl * 4), &mut bad);
                check("Ipv4.payload", pl == orig[ihl * 4..], format!("ihl {ihl}: payload starts with {:02x?}, expected the octets from {}", &pl[..pl.len().min(4)], ihl * 4), &mut bad);
            }
            Err(e) => check("Ipv4.view", false, format!("ihl {ihl}: {}", e.message), &mut bad),
        }
        check("Ipv4.view-modifies-buffer", buf == orig, format!("ihl {ihl}"), &mut bad);
        let mut w = orig.clone();
        let r = crate::mc::catch(|| {
            let mut p = Ipv4Packet::new(&mut w).unwrap();
            p.set_payload(&pay);
            let o = p.get_options_raw_mut().to_vec();
            o
        });
        let mut want = orig.clone();
        want[ihl * 4..ihl * 4 + pay.len()].copy_from_slice(&pay);
        match r {
            Ok(o) => {
                check("Ipv4.set_payload", w == want, format!("ihl {ihl}: buffer differs from the original with the payload at {}", ihl * 4), &mut bad);
                check("Ipv4.options_raw_mut", o == orig[20..ihl * 4], format!("ihl {ihl}"), &mut bad);
            }
            Err(e) => check("Ipv4.set_payload", false, format!("ihl {ihl}: {}", e.message), &mut bad),
        }
    }
    // TCP: data offset 5..=15 words
    for doff in 5..=15usize {
        let len = doff * 4 + pay.len() + 1;
        let mut buf = ramp(len);
        buf[12] = (doff as u8) << 4 | (buf[12] & 0x0f);
        let orig = buf.clone();
        let r = crate::mc::catch(|| {
            let p = TcpPacket::new_view(&buf).unwrap();
            (p.get_options_raw().to_vec(), p.payload().to_vec())
        });
        match r {
            Ok((opts, pl)) => {
                check("Tcp.options_raw", opts == orig[20..doff * 4], format!("data offset {doff}: {opts:02x?}"), &mut bad);
                check("Tcp.payload", pl == orig[doff * 4..], format!("data offset {doff}"), &mut bad);
            }
            Err(e) => check("Tcp.view", false, format!("data offset {doff}: {}", e.message), &mut bad),
        }
        let mut w = orig.clone();
        let r = crate::mc::catch(|| {
            let mut p = TcpPacket::new(&mut w).unwrap();
            p.set_payload(&pay);
        });
        let mut want = orig.clone();
        want[doff * 4..doff * 4 + pay.len()].copy_from_slice(&pay);
        check("Tcp.set_payload", r.is_ok() && w == want, format!("data offset {doff}"), &mut bad);
    }
    // fixed-position payloads: IPv6 (40, bounded by the payload length field), UDP (8), ICMP echo (8)
    for plen in [0usize, 1, 7, 11] {
        let len = 40 + 11 + 3;
        let mut buf = ramp(len);
        buf[4..6].copy_from_slice(&(plen as u16).to_be_bytes());
        let orig = buf.clone();
        let r = crate::mc::catch(|| Ipv6Packet::new_view(&buf).unwrap().payload().to_vec());
        check("Ipv6.payload", matches!(&r, Ok(p) if *p == orig[40..40 + plen]), format!("payload length {plen}: {r:?}"), &mut bad);
        let mut w = orig.clone();
        let r = crate::mc::catch(|| Ipv6Packet::new(&mut w).unwrap().set_payload(&pay[..plen]));
        let mut want = orig.clone();
        want[40..40 + plen].copy_from_slice(&pay[..plen]);
        check("Ipv6.set_payload", r.is_ok() && w == want, format!("payload length {plen}"), &mut bad);
    }
    macro_rules! fixed8 {
        ($ty:ty, $name:literal) => {{
            let orig = ramp(8 + pay.len() + 2);
            let r = crate::mc::catch(|| <$ty>::new_view(&orig).unwrap().payload().to_vec());
            check(concat!($name, ".payload"), matches!(&r, Ok(p) if *p == orig[8..]), format!("{r:?}"), &mut bad);
            let mut w = orig.clone();
            let r = crate::mc::catch(|| <$ty>::new(&mut w).unwrap().set_payload(&pay));
            let mut want = orig.clone();
            want[8..8 + pay.len()].copy_from_slice(&pay);
            check(concat!($name, ".set_payload"), r.is_ok() && w == want, String::new(), &mut bad);
        }};
    }
    fixed8!(UdpPacket<'_>, "Udp");
    fixed8!(Echo4<'_>, "Icmp4EchoRequest");
    fixed8!(Echo6<'_>, "Icmp6EchoRequest");
    // extension object: payload = octets 4..length
    for olen in [4usize, 5, 8, 12] {
        let mut orig = ramp(olen + 3);
        orig[0..2].copy_from_slice(&(olen as u16).to_be_bytes());
        let r = crate::mc::catch(|| ExtensionObjectPacket::new_view(&orig).unwrap().payload().to_vec());
        check("ExtensionObject.payload", matches!(&r, Ok(p) if *p == orig[4..olen]), format!("object length {olen}: {r:?}"), &mut bad);
    }
    bad
}
