//! C10 — the hop table covers exactly the probed path and ends at the target.
//! E3 on the real `State` with synthetic rounds whose path length varies between rounds, plus the
//! rounds of real executions over the simulated network (E1, <= 1 deviation).

use crate::c01::{self, Task};
use crate::drive::{self, TraceParams};
use crate::mc::{self, Chooser};
use crate::refstate::{self, RoundRec};
use crate::report::{Args, Finding, Report, Tier};
use crate::simnet::Menu;
use crate::stateexp::{self, Out, Shape};
use serde_json::json;
use std::collections::BTreeMap;
use std::sync::Mutex;
use trippy_core::verif::StateConfig;
use trippy_core::{FlowId, ProbeStatus, State};

type Findings = BTreeMap<String, Finding>;
const MS: u64 = 1_000_000;

fn alphabet(first_ttl: u8) -> Vec<Shape> {
    let c = |sel: u8| Out::C(2 * MS, sel, None, None);
    let mut v = vec![];
    // path lengths 1..4, target answering / silent / nothing answering, unknown middle hops
    for outs in [
        vec![c(1)],
        vec![Out::A],
        vec![c(1), c(1)],
        vec![c(1), Out::A],
        vec![Out::A, c(1)],
        vec![Out::A, Out::A],
        vec![c(1), c(1), c(1)],
        vec![c(1), Out::A, c(1)],
        vec![c(1), c(2), Out::A],
        vec![Out::A, Out::A, Out::A],
        vec![c(1), c(1), c(1), c(1)],
        vec![c(1), Out::A, Out::A, Out::A],
        vec![Out::F, c(1)],
        vec![c(1), Out::S, c(1)],
    ] {
        v.push(Shape { first_ttl, outs, largest_ttl: None });
    }
    // the strategy carries the target's distance over from an earlier round: a round in which
    // nothing (or only a nearer hop) answers is then still published with that path length
    v.push(Shape { first_ttl, outs: vec![Out::A, Out::A, Out::A], largest_ttl: Some(first_ttl + 2) });
    v.push(Shape { first_ttl, outs: vec![c(1), Out::A, Out::A], largest_ttl: Some(first_ttl + 2) });
    v
}

/// The statement's clauses about the hop table, evaluated for one flow.
pub fn oracle(st: &State, hist: &[RoundRec], flow: FlowId, rounds_of_flow: &[usize]) -> Vec<(String, String)> {
    let mut bad = vec![];
    let r = mc::catch(|| {
        let hops = st.hops_for_flow(flow).to_vec();
        let th = st.target_hop(flow).ttl();
        let flags: Vec<(bool, bool)> = hops.iter().map(|h| (st.is_target(h, flow), st.is_in_round(h, flow))).collect();
        (hops, th, flags)
    });
    let (hops, target_ttl, flags) = match r {
        Ok(x) => x,
        Err(p) => return vec![(format!("{}@hop-table-query", p.key()), format!("{} at {}:{}", p.message, p.file, p.line))],
    };
    let mine: Vec<&RoundRec> = rounds_of_flow.iter().map(|i| &hist[*i]).collect();
    let any_len = mine.iter().any(|r| r.largest_ttl > 0);
    let lowest = mine.iter().flat_map(|r| r.probes.iter()).filter_map(|p| match p {
        ProbeStatus::Complete(c) => Some(c.ttl.0),
        ProbeStatus::Awaited(a) => Some(a.ttl.0),
        ProbeStatus::Failed(f) => Some(f.ttl.0),
        _ => None,
    }).min();
    let greatest = mine.iter().map(|r| r.largest_ttl).max().unwrap_or(0);
    if !any_len || lowest.is_none() {
        if !hops.is_empty() {
            bad.push(("hop-list-not-empty".into(), format!("no round reported a path length but hops() has {} entries", hops.len())));
        }
        return bad;
    }
    let lowest = lowest.unwrap();
    if hops.is_empty() {
        bad.push(("hop-list-empty".into(), format!("path length {greatest} reported, lowest probed ttl {lowest}, but hops() is empty")));
        return bad;
    }
    let want_len = usize::from(greatest) + 1 - usize::from(lowest);
    if hops.len() != want_len {
        bad.push(("hop-list-bounds".into(), format!("hops() has {} entries, expected ttl {lowest}..={greatest}", hops.len())));
    }
    let probed: std::collections::BTreeSet<u8> = mine.iter().flat_map(|r| r.probes.iter()).filter_map(|p| match p {
        ProbeStatus::Complete(c) => Some(c.ttl.0),
        ProbeStatus::Awaited(a) => Some(a.ttl.0),
        ProbeStatus::Failed(f) => Some(f.ttl.0),
        _ => None,
    }).collect();
    for (i, h) in hops.iter().enumerate() {
        let pos_ttl = lowest + i as u8;
        if probed.contains(&pos_ttl) {
            if h.ttl() != pos_ttl {
                bad.push(("hop-ttl".into(), format!("position {i}: probed hop carries ttl {} instead of {pos_ttl}", h.ttl())));
            }
        } else if h.ttl() != 0 && h.ttl() != pos_ttl {
            bad.push(("hop-ttl".into(), format!("position {i}: ttl {}", h.ttl())));
        }
    }
    let latest = mine.last().map_or(0, |r| r.largest_ttl);
    if latest > 0 && target_ttl != latest && probed.contains(&latest) {
        bad.push(("target-hop".into(), format!("target_hop() has ttl {target_ttl} but the latest round's path length is {latest}")));
    }
    for (h, (is_t, in_r)) in hops.iter().zip(&flags) {
        if h.ttl() != 0 {
            if *is_t != (h.ttl() == latest) {
                bad.push(("is-target".into(), format!("hop ttl {}: is_target {is_t}, latest path length {latest}", h.ttl())));
            }
            if *in_r != (h.ttl() <= latest) {
                bad.push(("is-in-round".into(), format!("hop ttl {}: is_in_round {in_r}, latest path length {latest}", h.ttl())));
            }
        }
    }
    bad
}

fn true_distance(topo: &str, round: usize) -> Option<u8> {
    match topo {
        "grow-2-3" => Some(if round < 2 { 2 } else { 3 }),
        "grow-2-4" => Some(if round < 2 { 2 } else { 4 }),
        "shrink-4-2" => Some(if round < 2 { 4 } else { 2 }),
        "shrink-4-3" => Some(if round < 2 { 4 } else { 3 }),
        "shrink-3-2" => Some(if round < 2 { 3 } else { 2 }),
        "L1" => Some(1),
        "L2" => Some(2),
        "L3" | "L3-flaky" | "ecmp" | "silent-mid" => Some(3),
        "L4" => Some(4),
        _ => None,
    }
}

fn real_menu(t: &Task) -> Menu {
    if t.topo == "L3-flaky" || t.topo == "silent-all-flaky" {
        // socket failures the cell survives: Failed and Skipped slots in real histories
        return Menu { delay: true, loss: true, ..crate::c09::transient_faults(&t.cell) };
    }
    Menu { delay: true, reorder: true, dup: true, loss: true, ..Menu::default() }
}

/// Oracle for one real execution: (key, detail, round) for every clause that fails.
fn judge_real(t: &Task, o: &drive::RunOutcome) -> Vec<(String, String, usize)> {
    let mut bad = vec![];
    let mut hist: Vec<RoundRec> = vec![];
    for (r, pb) in o.world.publishes.iter().enumerate() {
        let true_dist = true_distance(t.topo, r);
        hist.push(RoundRec { probes: pb.probes.clone(), largest_ttl: pb.largest_ttl });
        if let Some(st) = o.round_snapshots.get(r) {
            let all: Vec<usize> = (0..hist.len()).collect();
            for (k, detail) in oracle(st, &hist, State::default_flow_id(), &all) {
                bad.push((format!("{k}:real"), detail, r));
            }
        }
        // a round's path length never exceeds what the round probed
        let max_probed = pb.probes.iter().filter_map(|s| match s {
            ProbeStatus::Awaited(a) => Some(a.ttl.0),
            ProbeStatus::Complete(c) => Some(c.ttl.0),
            ProbeStatus::Failed(f) => Some(f.ttl.0),
            _ => None,
        }).max().unwrap_or(0);
        if pb.largest_ttl > max_probed {
            bad.push(("path-length-beyond-probed-ttl:real".into(), format!("path length {} but the highest ttl probed is {max_probed}", pb.largest_ttl), r));
        }
        // stable path, target answered, nothing withheld: path length = true distance
        // ("the target answers" = its reply to the probe sent at its true distance was received in
        // this round; a reply withheld past the end of the round - lost, delayed or overtaken - is not an answer)
        let answered_at_distance = |d: u8| pb.probes.iter().any(|s| matches!(s, ProbeStatus::Complete(c) if c.ttl.0 == d));
        if let (Some(d), true, true) = (true_dist, pb.target_found, true_dist.is_some_and(answered_at_distance)) {
            if d >= t.params.first_ttl && pb.largest_ttl != d {
                bad.push(("path-length-not-true-distance:real".into(), format!("path length {} but the target is at distance {d}", pb.largest_ttl), r));
            }
        }
        // the same clause from the network's side: in an execution without any scheduling deviation
        // (nothing lost, delayed, duplicated or reordered) a target that answers when probed is
        // found at its true distance in every round at whose start the path had been the same for
        // a whole round - also when no probe reached it because the tracer stopped short
        let stable = r == 0 || true_distance(t.topo, r - 1) == true_dist && (r < 2 || true_distance(t.topo, r - 2) == true_dist);
        if let (Some(d), true, true) = (true_dist, o.world.chooser.deviations() == 0, stable) {
            if d >= t.params.first_ttl && d <= t.params.max_ttl && pb.largest_ttl != d {
                bad.push(("path-length-not-true-distance-on-stable-path:real".into(), format!("path length {} but the answering target has been at distance {d} since round {}", pb.largest_ttl, (0..=r).rev().take_while(|q| true_distance(t.topo, *q) == true_dist).last().unwrap_or(r)), r));
            }
        }
        if let (None, false) = (true_dist, pb.probes.iter().any(|s| matches!(s, ProbeStatus::Complete(_)))) {
            if pb.largest_ttl != 0 {
                bad.push(("path-length-nonzero-with-no-answer:real".into(), format!("largest_ttl {} though nothing answered", pb.largest_ttl), r));
            }
        }
    }
    bad
}

fn replay_real(path: &str) -> i32 {
    let (t, choices) = c01::load_task(path);
    drive::SNAPSHOT_EACH_ROUND.with(|s| s.set(true));
    let topo = drive::topo_named(&t.cell, t.topo);
    let mut net = drive::net_cfg(&t.cell, &t.params, topo, real_menu(&t));
    net.reroute = drive::reroute_named(&t.cell, t.topo);
    let o = drive::run_trace(&t.cell, &t.params, net, Chooser::new(&choices, 100_000));
    drive::SNAPSHOT_EACH_ROUND.with(|s| s.set(false));
    println!("replay C10: cell={} topo={} first_ttl={} max_ttl={} choices={:?}", t.cell.name(), t.topo, t.params.first_ttl, t.params.max_ttl, choices);
    c01::print_trace(&o);
    let bad = judge_real(&t, &o);
    for (k, d, r) in &bad {
        println!("DISCREPANCY {k}: round {r}: {d}");
    }
    if bad.is_empty() {
        println!("replay: property held");
        0
    } else {
        println!("VIOLATION property=C10 replay={path}");
        1
    }
}

pub fn replay(path: &str) -> i32 {
    let s = std::fs::read_to_string(path).expect("MACHINERY: cannot read replay file");
    let v: serde_json::Value = serde_json::from_str(&s).expect("MACHINERY: replay JSON");
    let r = if v.get("replay").is_some() { &v["replay"] } else { &v };
    let Some(hist_idx) = r["history"].as_array() else {
        return replay_real(path);
    };
    let first_ttl = r["first_ttl"].as_u64().unwrap() as u8;
    let al = alphabet(first_ttl);
    let mut st = State::new(StateConfig { max_samples: 4, max_flows: 1 });
    let mut hist = vec![];
    let mut bad = vec![];
    for (i, x) in hist_idx.iter().enumerate() {
        let sh = &al[x.as_u64().unwrap() as usize];
        let rr = stateexp::build(sh, i, (i as u16) * 16);
        println!("round {i}: {:?} largest_ttl {}", sh.outs, rr.largest_ttl);
        stateexp::apply(&mut st, &rr);
        hist.push(rr);
        let all: Vec<usize> = (0..hist.len()).collect();
        bad = oracle(&st, &hist, State::default_flow_id(), &all);
    }
    if let Ok(h) = mc::catch(|| st.hops().iter().map(trippy_core::Hop::ttl).collect::<Vec<_>>()) {
        println!("hops(): {h:?}");
    }
    for (k, d) in &bad {
        println!("DISCREPANCY {k}: {d}");
    }
    if bad.is_empty() {
        println!("replay: property held");
        0
    } else {
        println!("VIOLATION property=C10 replay={path}");
        1
    }
}

pub fn run(args: &Args) -> i32 {
    if let Some(path) = &args.replay {
        return replay(path);
    }
    let tier = args.tier;
    let mut rep = Report::new("C10", tier, "model_checking");
    let findings: Mutex<Findings> = Mutex::new(Findings::new());
    let agg = Mutex::new((0u64, 0u64, 0u64, vec![]));
    // queries before anything was published must not fail
    {
        let st = State::new(StateConfig::default());
        let mut local = Findings::new();
        for (k, d) in oracle(&st, &[], State::default_flow_id(), &[]) {
            local.insert(format!("{k}:empty-state"), Finding { key: format!("{k}:empty-state"), detail: d, replay: json!({"check":"C10","empty":true}), weight: (0, 0), count: 1 });
        }
        merge(&findings, local);
    }
    let depth = if tier == Tier::Thorough { 7 } else { 5 };
    let mut tasks = vec![];
    for first_ttl in [1u8, 2, 5] {
        for first in 0..alphabet(first_ttl).len() {
            tasks.push((first_ttl, first));
        }
    }
    mc::par_for(tasks.len(), mc::workers(), |ti| {
        let (first_ttl, first) = tasks[ti];
        let al = alphabet(first_ttl);
        let mut local = Findings::new();
        let mut evals = 0u64;
        let mut sample = None;
        let stats = stateexp::dfs(StateConfig { max_samples: 4, max_flows: 1 }, &al, depth, Some(first), &refstate::state_key, &mut |st, hist, idx| {
            evals += 1;
            let all: Vec<usize> = (0..hist.len()).collect();
            for (k, detail) in oracle(st, hist, State::default_flow_id(), &all) {
                let e = local.entry(k.clone()).or_insert_with(|| Finding { key: k, detail: format!("[first_ttl={first_ttl} history={idx:?} largest_ttls={:?}] {detail}", hist.iter().map(|r| r.largest_ttl).collect::<Vec<_>>()), replay: json!({"check":"C10","first_ttl":first_ttl,"history":idx}), weight: (hist.len(), 0), count: 0 });
                e.count += 1;
            }
            if sample.is_none() && idx.len() == depth && ti % 13 == 0 {
                sample = Some(json!({"first_ttl": first_ttl, "history": idx.iter().map(|i| format!("{:?}", al[*i].outs)).collect::<Vec<_>>(), "hops": mc::catch(|| st.hops().iter().map(trippy_core::Hop::ttl).collect::<Vec<_>>()).unwrap_or_default()}));
            }
            local.len() < 40
        });
        for (what, pn, hidx) in &stats.panics {
            let key = format!("{}:{what}", pn.key());
            local.entry(key.clone()).or_insert_with(|| Finding { key, detail: format!("[first_ttl={first_ttl} history={hidx:?}] {what} panicked: {} at {}:{}", pn.message, pn.file, pn.line), replay: json!({"check":"C10","first_ttl":first_ttl,"history":hidx}), weight: (hidx.len(), 0), count: 1 });
        }
        let mut a = agg.lock().unwrap();
        a.0 += stats.states;
        a.1 += stats.transitions;
        a.2 += evals;
        if let Some(s) = sample {
            if a.3.len() < 3 {
                a.3.push(s);
            }
        }
        drop(a);
        merge(&findings, local);
    });
    // real executions: stable, ECMP, silent target; first_ttl 1..3
    let mut rtasks: Vec<Task> = vec![];
    for cell in drive::base_cells() {
        for topo in ["L1", "L2", "L3", "L4", "ecmp", "silent-target", "silent-mid", "silent-all", "L3-flaky", "silent-all-flaky"] {
            for first_ttl in [1u8, 2, 3] {
                let p = TraceParams { first_ttl, rounds: 3, packet_size: if cell.v6 { 96 } else { 84 }, ..TraceParams::default() };
                rtasks.push(Task { cell, topo, params: p, bound: if tier == Tier::Thorough { 3 } else { 2 } });
            }
        }
    }
    // max_ttl short of the target's distance: the last probed hop answers, the target is never reached
    for cell in drive::base_cells() {
        for topo in ["L3", "L4", "silent-target", "silent-mid"] {
            for (first_ttl, max_ttl) in [(1u8, 1u8), (1, 2), (2, 2), (1, 3), (2, 3)] {
                let p = TraceParams { first_ttl, max_ttl, rounds: 3, packet_size: if cell.v6 { 96 } else { 84 }, ..TraceParams::default() };
                rtasks.push(Task { cell, topo, params: p, bound: if tier == Tier::Thorough { 3 } else { 2 } });
            }
        }
    }
    // changing paths: the route to the target gets longer / shorter between rounds 1 and 2
    for cell in drive::base_cells() {
        for topo in ["grow-2-3", "grow-2-4", "shrink-4-2", "shrink-4-3", "shrink-3-2"] {
            for first_ttl in [1u8, 2] {
                let p = TraceParams { first_ttl, rounds: 5, packet_size: if cell.v6 { 96 } else { 84 }, ..TraceParams::default() };
                rtasks.push(Task { cell, topo, params: p, bound: if tier == Tier::Thorough { 2 } else { 1 } });
            }
        }
    }
    let ragg = Mutex::new((mc::ExploreStats::default(), 0u64));
    mc::par_for(rtasks.len(), mc::workers(), |ti| {
        let t = &rtasks[ti];
        let mut local = Findings::new();
        let mut rounds = 0u64;
        drive::SNAPSHOT_EACH_ROUND.with(|s| s.set(true));
        let stats = mc::explore(t.bound, 400, &mut |ch| {
            let c = std::mem::replace(ch, Chooser::new(&[], 0));
            let topo = drive::topo_named(&t.cell, t.topo);
            let mut net = drive::net_cfg(&t.cell, &t.params, topo, real_menu(t));
            net.reroute = drive::reroute_named(&t.cell, t.topo);
            let o = drive::run_trace(&t.cell, &t.params, net, c);
            *ch = o.world.chooser.clone();
            rounds += o.world.publishes.len() as u64;
            for (key, detail, r) in judge_real(t, &o) {
                let e = local.entry(key.clone()).or_insert_with(|| Finding { key, detail: format!("[{} {} first_ttl={} max_ttl={} choices={:?}] round {r}: {detail}", t.cell.name(), t.topo, t.params.first_ttl, t.params.max_ttl, ch.choices), replay: c01::replay_json("C10", t, &ch.choices), weight: (ch.deviations(), r), count: 0 });
                e.count += 1;
            }
            local.len() < 40
        });
        drive::SNAPSHOT_EACH_ROUND.with(|s| s.set(false));
        let mut a = ragg.lock().unwrap();
        a.0.merge(&stats);
        a.1 += rounds;
        drop(a);
        merge(&findings, local);
    });
    let (states, transitions, evals, samples) = agg.into_inner().unwrap();
    let (rstats, rrounds) = ragg.into_inner().unwrap();
    rep.merge_findings(findings.into_inner().unwrap());
    rep.set("states", json!(states + rstats.states));
    rep.set("transitions", json!(transitions + rstats.transitions));
    rep.set("traces_validated_against_impl", json!(transitions + rstats.executions));
    rep.set("evaluations", json!(evals + rrounds));
    rep.set("distinct_nontrivial", json!(states));
    rep.set("synthetic_depth_completed", json!(depth));
    rep.set("real_executions", json!(rstats.executions));
    rep.set("real_rounds_checked", json!(rrounds));
    rep.set("rule", json!(format!("synthetic: 14 round shapes (path lengths 1..4, answering/silent target, unknown hops, failed and re-issued probes; largest_ttl by the strategy's contract) x first_ttl {{1,2,5}}: ALL histories to depth {depth} on the real State, de-duplicated on (depth, getter results); after every round: hops() empty iff no path length, else consecutive ttl lowest-probed..=max path length with each probed hop carrying its ttl, target_hop/is_target/is_in_round at the latest round's length, no query panics (also on the empty state). real: 14 cells x 10 topologies (two - an answering and an all-silent path - with the socket failures the cell survives offered at every send/bind/connect) x first_ttl {{1,2,3}} x 3 rounds + 14 cells x 4 topologies x (first_ttl,max_ttl) in {{(1,1),(1,2),(2,2),(1,3),(2,3)}} (max_ttl short of the target), path length <= highest ttl probed in the round, all executions with <= 2 (3 thorough) deviations, + changing paths: 14 cells x {{2->3, 2->4, 4->2, 4->3, 3->2 hops}} x first_ttl {{1,2}}, 5 rounds with the route changing after round 1 (<= 1 deviation, 2 thorough), same oracle on the snapshot at every publish + path length = true distance in every round in which the target's reply to the probe at its true distance was received (and, in the deviation-free execution, in every round at whose start the path had been unchanged for a whole round), 0 when nothing answers")));
    for s in samples {
        rep.sample(s);
    }
    rep.assumptions = vec!["synthetic rounds obey the strategy's contract (DESIGN.md 5.4)".into(), c01::ASSUME.into()];
    rep.finish()
}

fn merge(findings: &Mutex<Findings>, local: Findings) {
    let mut g = findings.lock().unwrap();
    for (k, f) in local {
        match g.get_mut(&k) {
            Some(o) => {
                o.count += f.count;
                if f.weight < o.weight {
                    let c = o.count;
                    *o = f;
                    o.count = c;
                }
            }
            None => {
                g.insert(k, f);
            }
        }
    }
}
