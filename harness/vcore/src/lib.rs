//! vcore: model-checking harness library for trippy-core / trippy-packet properties.
#![allow(dead_code)]

pub mod c01;
pub mod c02;
pub mod c03;
pub mod c04;
pub mod c05;
pub mod c06;
pub mod c07;
pub mod c08;
pub mod c09;
pub mod c10;
pub mod c11;
pub mod c12;
pub mod c13;
pub mod c14;
pub mod c15;
pub mod c19;
pub mod c20;
pub mod drive;
pub mod mc;
pub mod pkt;
pub mod refstate;
pub mod report;
pub mod sched;
pub mod simnet;
pub mod stateexp;
pub mod strat;
pub mod tracelog;
pub mod vclock;
pub mod wire;

/// Process-wide initialisation shared by the harness binaries.
pub fn init() {
    // keep large, short-lived allocations (probe buffers, hop tables) in the heap instead of
    // mmap/munmap churn: every execution rebuilds the whole tracer
    unsafe {
        libc::mallopt(libc::M_MMAP_THRESHOLD, 1 << 30);
        libc::mallopt(libc::M_TRIM_THRESHOLD, 1 << 30);
        libc::mallopt(libc::M_TOP_PAD, 64 << 20);
    }
    mc::install_panic_hook();
    vclock::self_test();
    wire::self_test();
}
