//! E3: explicit-state exploration of round histories on the real `State` (C05, C10, C15).
//! A node is a history of round shapes; the live `State` is cloned per level (it is `Clone`),
//! the visited set holds canonical keys (all getter results) so equal states are expanded once.

use crate::refstate::RoundRec;
use crate::vclock;
use std::collections::HashSet;
use std::net::{IpAddr, Ipv4Addr};
use trippy_core::verif::{Checksum, IcmpPacketCode, ProbeFailed, StateConfig};
use trippy_core::{
    CompletionReason, Flags, IcmpPacketType, Port, Probe, ProbeComplete, ProbeStatus, Round, RoundId, Sequence, State,
    TimeToLive, TraceId, TypeOfService,
};

/// Outcome of one slot of a synthetic round.
#[derive(Debug, Clone, Copy, PartialEq, Eq, Hash)]
pub enum Out {
    /// Complete: rtt in ns, address selector, tos, (expected, actual) udp checksums
    C(u64, u8, Option<u8>, Option<(u16, u16)>),
    A,
    F,
    /// TCP re-issue: abandoned slot, the next slot keeps the TTL
    S,
    /// not sent (never inside a real round slice; used for robustness only)
    N,
}

#[derive(Debug, Clone, PartialEq, Eq, Hash)]
pub struct Shape {
    pub first_ttl: u8,
    pub outs: Vec<Out>,
    /// None = derive from the strategy's contract
    pub largest_ttl: Option<u8>,
}

/// Selectors below 200 give every hop its own address; 200 and above name one host whatever the
/// ttl (the target answering several probes of a round, a routing loop).
pub fn addr(sel: u8, ttl: u8) -> IpAddr {
    if sel >= 200 {
        return IpAddr::V4(Ipv4Addr::new(10, sel, 0, 1));
    }
    IpAddr::V4(Ipv4Addr::new(10, sel, ttl, 1))
}

/// `largest_ttl` as the strategy computes it (its documented contract): the target's TTL when the
/// last probed hop answered, else min(max sent, max answered + 1), else 0.
pub fn contract_largest_ttl(first_ttl: u8, outs: &[Out]) -> u8 {
    let mut ttl = first_ttl;
    let mut max_sent = 0u8;
    let mut max_recv: Option<u8> = None;
    let mut last_is_complete = false;
    for o in outs {
        match o {
            Out::S | Out::N => {}
            _ => {
                max_sent = ttl;
                last_is_complete = matches!(o, Out::C(..));
                if matches!(o, Out::C(..)) {
                    max_recv = Some(ttl);
                }
                ttl = ttl.saturating_add(1);
            }
        }
    }
    match max_recv {
        None => 0,
        Some(m) if last_is_complete => m,
        Some(m) => max_sent.min(m + 1),
    }
}

/// Materialise a shape as the probes of round `round_id`.
pub fn build(shape: &Shape, round_id: usize, seq_base: u16) -> RoundRec {
    build_with(shape, round_id, seq_base, &addr)
}

/// As `build`, with a caller supplied (selector, ttl) -> address mapping.
pub fn build_with(shape: &Shape, round_id: usize, seq_base: u16, addr: &dyn Fn(u8, u8) -> IpAddr) -> RoundRec {
    let mut probes = vec![];
    let mut ttl = shape.first_ttl;
    let sent = vclock::from_ns(1_000_000_000 + round_id as u64 * 10_000_000_000);
    for (i, o) in shape.outs.iter().enumerate() {
        let seq = seq_base.wrapping_add(i as u16);
        let mk = || Probe {
            sequence: Sequence(seq),
            identifier: TraceId(7),
            src_port: Port(5000),
            dest_port: Port(33434u16.wrapping_add(seq)),
            ttl: TimeToLive(ttl),
            round: RoundId(round_id),
            sent,
            flags: Flags::empty(),
        };
        match *o {
            Out::C(rtt, sel, tos, cks) => {
                let p = mk();
                probes.push(ProbeStatus::Complete(ProbeComplete {
                    sequence: p.sequence,
                    identifier: p.identifier,
                    src_port: p.src_port,
                    dest_port: p.dest_port,
                    ttl: p.ttl,
                    round: p.round,
                    sent: p.sent,
                    host: addr(sel, ttl),
                    received: sent + std::time::Duration::from_nanos(rtt),
                    icmp_packet_type: IcmpPacketType::TimeExceeded(IcmpPacketCode(0)),
                    tos: tos.map(TypeOfService),
                    expected_udp_checksum: cks.map(|c| Checksum(c.0)),
                    actual_udp_checksum: cks.map(|c| Checksum(c.1)),
                    extensions: None,
                }));
                ttl = ttl.saturating_add(1);
            }
            Out::A => {
                probes.push(ProbeStatus::Awaited(mk()));
                ttl = ttl.saturating_add(1);
            }
            Out::F => {
                let p = mk();
                probes.push(ProbeStatus::Failed(ProbeFailed {
                    sequence: p.sequence,
                    identifier: p.identifier,
                    src_port: p.src_port,
                    dest_port: p.dest_port,
                    ttl: p.ttl,
                    round: p.round,
                    sent: p.sent,
                }));
                ttl = ttl.saturating_add(1);
            }
            Out::S => probes.push(ProbeStatus::Skipped),
            Out::N => probes.push(ProbeStatus::NotSent),
        }
    }
    let largest_ttl = shape.largest_ttl.unwrap_or_else(|| contract_largest_ttl(shape.first_ttl, &shape.outs));
    RoundRec { probes, largest_ttl }
}

pub fn apply(st: &mut State, r: &RoundRec) {
    st.update_from_round(&Round::new(&r.probes, TimeToLive(r.largest_ttl), CompletionReason::TargetFound));
}

#[derive(Debug, Default, Clone)]
pub struct DfsStats {
    pub states: u64,
    pub transitions: u64,
    pub pruned: u64,
    pub max_depth: usize,
    pub frontier_empty: bool,
    /// Panics of the code under test while applying a round or computing the state key:
    /// (what, panic, history of shape indices).  Callers turn these into findings.
    pub panics: Vec<(&'static str, crate::mc::PanicInfo, Vec<usize>)>,
}

/// Depth-bounded DFS over histories with de-duplication on (depth, canonical key).
/// `visit(state, history_of_rounds, shape_indices)` evaluates the oracle after every round.
pub fn dfs(
    cfg: StateConfig,
    alphabet: &[Shape],
    depth: usize,
    first_only: Option<usize>,
    key: &dyn Fn(&State) -> u64,
    visit: &mut dyn FnMut(&State, &[RoundRec], &[usize]) -> bool,
) -> DfsStats {
    let mut stats = DfsStats::default();
    let mut seen: HashSet<(usize, u64)> = HashSet::new();
    let init = State::new(cfg);
    let mut hist: Vec<RoundRec> = vec![];
    let mut idx: Vec<usize> = vec![];
    stats.states += 1;
    fn rec(
        st: &State,
        alphabet: &[Shape],
        depth: usize,
        first_only: Option<usize>,
        key: &dyn Fn(&State) -> u64,
        visit: &mut dyn FnMut(&State, &[RoundRec], &[usize]) -> bool,
        stats: &mut DfsStats,
        seen: &mut HashSet<(usize, u64)>,
        hist: &mut Vec<RoundRec>,
        idx: &mut Vec<usize>,
    ) -> bool {
        if hist.len() >= depth {
            return true;
        }
        for (si, sh) in alphabet.iter().enumerate() {
            if crate::mc::past_soft_deadline() {
                return false;
            }
            if hist.is_empty() {
                if let Some(f) = first_only {
                    if si != f {
                        continue;
                    }
                }
            }
            let r = build(sh, hist.len(), (hist.len() as u16) * 16);
            let mut next = st.clone();
            if let Err(p) = crate::mc::catch(|| apply(&mut next, &r)) {
                // the aggregator itself panicked: report, do not explore beyond this round
                idx.push(si);
                if stats.panics.len() < 16 {
                    stats.panics.push(("apply", p, idx.clone()));
                }
                idx.pop();
                stats.transitions += 1;
                continue;
            }
            stats.transitions += 1;
            hist.push(r);
            idx.push(si);
            stats.max_depth = stats.max_depth.max(hist.len());
            let cont = match crate::mc::catch(|| visit(&next, hist, idx)) {
                Ok(c) => c,
                Err(p) => {
                    // a query made by the oracle panicked inside the code under test
                    if stats.panics.len() < 16 {
                        stats.panics.push(("query", p, idx.clone()));
                    }
                    true
                }
            };
            let k = match crate::mc::catch(|| key(&next)) {
                Ok(k) => k,
                Err(p) => {
                    // a getter panicked: the history itself is the key (no merging)
                    if stats.panics.len() < 16 {
                        stats.panics.push(("query", p, idx.clone()));
                    }
                    crate::mc::hash64(&(0xdead_u16, idx.clone()))
                }
            };
            let fresh = seen.insert((hist.len(), k));
            if fresh {
                stats.states += 1;
            } else {
                stats.pruned += 1;
            }
            let ok = cont && (!fresh || rec(&next, alphabet, depth, first_only, key, visit, stats, seen, hist, idx));
            hist.pop();
            idx.pop();
            if !ok {
                return false;
            }
        }
        true
    }
    rec(&init, alphabet, depth, first_only, key, visit, &mut stats, &mut seen, &mut hist, &mut idx);
    stats
}

/// A de Bruijn sequence B(k, n) (every length-n word over k symbols occurs once, cyclically).
pub fn de_bruijn(k: usize, n: usize) -> Vec<usize> {
    let mut a = vec![0usize; k * n];
    let mut seq = vec![];
    fn db(t: usize, p: usize, k: usize, n: usize, a: &mut Vec<usize>, seq: &mut Vec<usize>) {
        if t > n {
            if n % p == 0 {
                seq.extend_from_slice(&a[1..=p]);
            }
        } else {
            a[t] = a[t - p];
            db(t + 1, p, k, n, a, seq);
            for j in (a[t - p] + 1)..k {
                a[t] = j;
                db(t + 1, t, k, n, a, seq);
            }
        }
    }
    db(1, 1, k, n, &mut a, &mut seq);
    seq
}
