//! C08 — rounds end exactly when the timing policy says.
//! E1 at strategy level with the virtual clock: the environment picks, at every receive, which
//! response (none / any pending) arrives and how much time passes (0, eps, T-eps, T).

use crate::mc::{self, Chooser};
use crate::report::{Args, Finding, Report, Tier};
use crate::strat::{self, Ev, SCfg, SMenu, SOutcome, T_NS};
use serde_json::{json, Value};
use std::collections::{BTreeMap, HashSet};
use std::sync::Mutex;
use std::time::Duration;
use trippy_core::{CompletionReason, Protocol};

const EPS: u64 = 1;

#[derive(Debug, Clone)]
pub struct Task {
    pub min: u64,
    pub max: u64,
    pub grace: u64,
    /// target distance: 1, 2 or 0 (silent)
    pub l: u8,
    pub rounds: usize,
    pub bound: usize,
    pub max_points: usize,
    /// initial sequence and number of hops probed per round (default 33434 / 3)
    pub init: u16,
    pub ttls: u8,
}

pub fn scfg(t: &Task) -> SCfg {
    SCfg {
        protocol: Protocol::Icmp,
        target_dist: (t.l > 0).then_some(t.l),
        path_len: t.ttls,
        silent_hops: if t.ttls > 3 { (1..=t.ttls).collect() } else { vec![] },
        menu: SMenu {
            free_kind: true,
            time_menu: vec![T_NS, 0, EPS, T_NS - EPS],
            ..SMenu::default()
        },
        burst: vec![],
        script: vec![],
        latency: 0,
        ecmp_longer: (0, 0),
        strategy: strat::strategy_config(
            Protocol::Icmp,
            1,
            t.ttls,
            if t.ttls > 3 { 255 } else { 24 },
            t.rounds,
            Duration::from_nanos(t.min),
            Duration::from_nanos(t.max),
            Duration::from_nanos(t.grace),
            t.init,
        ),
    }
}

pub fn monitor(t: &Task, o: &SOutcome) -> (Vec<(String, String)>, [u64; 3]) {
    let mut bad = vec![];
    let mut obs = [0u64; 3]; // [publishes by target rule, publishes by max rule, reason TargetFound while only max fired]
    let w = &o.world;
    if let Some(p) = &o.panic {
        bad.push((p.key(), format!("{} at {}:{}", p.message, p.file, p.line)));
        return (bad, obs);
    }
    if let Err(e) = &o.result {
        bad.push(("run-error".into(), e.clone()));
        return (bad, obs);
    }
    if w.publishes.len() != t.rounds {
        bad.push(("round-count".into(), format!("{}", w.publishes.len())));
    }
    let mut start = w.start_ns;
    let mut round = 0usize;
    let mut found = false;
    let mut last: Option<u64> = None;
    let mut di = 0usize;
    let cond = |now: u64, start: u64, found: bool, last: Option<u64>| -> (bool, bool) {
        let dur = now - start;
        let by_max = dur > t.max;
        let by_target = found && dur > t.min && last.is_some_and(|l| now - l > t.grace);
        (by_target, by_max)
    };
    let evs = &w.events;
    for (i, e) in evs.iter().enumerate() {
        match e {
            Ev::Send(idx) => {
                let s = &w.sends[*idx];
                if s.time_ns < start {
                    bad.push(("send-before-round-start".into(), format!("round {round}: probe stamped {} before the round started at {start}", s.time_ns)));
                }
            }
            Ev::Recv { time_ns, delivered } => {
                if *delivered {
                    let d = &w.deliveries[di];
                    di += 1;
                    if d.first && d.for_send.is_some_and(|f| w.sends[f].round == round) {
                        last = Some(d.time_ns);
                        if d.is_target {
                            found = true;
                        }
                    }
                }
                // end of an iteration: the policy is evaluated now
                let (bt, bm) = cond(*time_ns, start, found, last);
                let next_is_publish = matches!(evs.get(i + 1), Some(Ev::Publish(_)));
                if (bt || bm) && !next_is_publish && i + 1 < evs.len() {
                    bad.push(("held-open".into(), format!("round {round}: at t={time_ns} (start {start}, found {found}, last {last:?}) the policy is satisfied but the round was not published before the next socket call; min/max/grace={}/{}/{}", t.min, t.max, t.grace)));
                }
                if !(bt || bm) && next_is_publish {
                    bad.push(("published-early".into(), format!("round {round}: published at t={time_ns} (start {start}, found {found}, last {last:?}) although neither rule holds; min/max/grace={}/{}/{}", t.min, t.max, t.grace)));
                }
            }
            Ev::Publish(pi) => {
                let p = &w.publishes[*pi];
                let tt = p.time_ns;
                let (bt, bm) = cond(tt, start, found, last);
                if bt {
                    obs[0] += 1;
                } else if bm {
                    obs[1] += 1;
                }
                if !(bt || bm) {
                    bad.push(("published-early".into(), format!("round {round}: published at t={tt}, start {start}, found {found}, last {last:?}; min/max/grace={}/{}/{}", t.min, t.max, t.grace)));
                }
                if tt - start > t.max + T_NS {
                    bad.push(("held-longer-than-max-plus-timeout".into(), format!("round {round}: lasted {} > max {} + read timeout {T_NS}", tt - start, t.max)));
                }
                let want_reason = if found { CompletionReason::TargetFound } else { CompletionReason::RoundTimeLimitExceeded };
                if p.reason != want_reason {
                    bad.push(("reason".into(), format!("round {round}: reason {:?} but target answered in the round: {found}", p.reason)));
                }
                if p.reason == CompletionReason::TargetFound && !bt {
                    obs[2] += 1;
                }
                // the next round starts at the instant of publication
                start = tt;
                round += 1;
                found = false;
                last = None;
            }
        }
    }
    (bad, obs)
}

fn task_json(t: &Task) -> Value {
    json!({"min_ns": t.min, "max_ns": t.max, "grace_ns": t.grace, "target_distance": t.l, "rounds": t.rounds, "initial_sequence": t.init, "hops_probed": t.ttls})
}

fn digest(o: &SOutcome) -> u64 {
    let p: Vec<(u64, u8, bool)> = o.world.publishes.iter().map(|p| (p.time_ns, p.largest_ttl, p.reason == CompletionReason::TargetFound)).collect();
    let s: Vec<(u64, u8)> = o.world.sends.iter().map(|s| (s.time_ns, s.ttl)).collect();
    mc::hash64(&(p, s))
}

pub fn run(args: &Args) -> i32 {
    if let Some(path) = &args.replay {
        return replay(path);
    }
    let tier = args.tier;
    let mut rep = Report::new("C08", tier, "model_checking");
    let mut tasks = vec![];
    let vals = [0u64, T_NS, 2 * T_NS, 3 * T_NS];
    for &min in &vals {
        for &max in &vals {
            if min > max {
                continue;
            }
            for &grace in &vals {
                for l in [1u8, 2, 0] {
                    match tier {
                        Tier::Quick => tasks.push(Task { min, max, grace, l, rounds: 2, bound: 3, max_points: 40, init: 33434, ttls: 3 }),
                        Tier::Thorough => {
                            // full product over the first round (<= 6 iterations), second round default
                            tasks.push(Task { min, max, grace, l, rounds: 2, bound: usize::MAX, max_points: 10, init: 33434, ttls: 3 });
                            tasks.push(Task { min, max, grace, l, rounds: 3, bound: 4, max_points: 60, init: 33434, ttls: 3 });
                        }
                    }
                }
            }
        }
    }
    // long runs across the sequence restart (round bookkeeping that is reset "per round" must also
    // be reset in the round that restarts the sequence space): 64 silent hops per round from the
    // highest initial sequence - the allocator restarts after 8 rounds -, and a found target at
    // distance 2 with 100 hops probed in the first round
    for (min, max, grace) in [(T_NS, 2 * T_NS, T_NS), (0, 3 * T_NS, 0), (2 * T_NS, 2 * T_NS, T_NS)] {
        let (min, max) = (min + 64 * T_NS, max + 64 * T_NS);
        tasks.push(Task { min, max, grace, l: 0, rounds: 20, bound: if tier == Tier::Thorough { 2 } else { 1 }, max_points: 4000, init: 64511, ttls: 64 });
    }
    let agg = Mutex::new((mc::ExploreStats::default(), 0u64, 0u64, [0u64; 3], vec![]));
    let findings: Mutex<BTreeMap<String, Finding>> = Mutex::new(BTreeMap::new());
    mc::par_for(tasks.len(), mc::workers(), |ti| {
        let t = &tasks[ti];
        let mut digests = HashSet::new();
        let mut local: BTreeMap<String, Finding> = BTreeMap::new();
        let mut first = true;
        let mut replays = 0u64;
        let mut obs_sum = [0u64; 3];
        let mut sample = None;
        let stats = mc::explore(t.bound.min(1_000_000), t.max_points, &mut |ch| {
            let c = std::mem::replace(ch, Chooser::new(&[], 0));
            let o = strat::run_strategy(scfg(t), c);
            *ch = o.world.chooser.clone();
            let (bad, obs) = monitor(t, &o);
            for i in 0..3 {
                obs_sum[i] += obs[i];
            }
            let dg = digest(&o);
            digests.insert(dg);
            if first || !bad.is_empty() {
                let o2 = strat::run_strategy(scfg(t), Chooser::new(&ch.choices, t.max_points));
                assert!(digest(&o2) == dg, "MACHINERY: nondeterministic replay (C08)");
                replays += 1;
                if first && ti % 41 == 0 {
                    sample = Some(json!({"task": task_json(t), "choices": ch.choices, "publish_times_ns": o.world.publishes.iter().map(|p| p.time_ns).collect::<Vec<_>>() }));
                }
                first = false;
            }
            for (k, d) in bad {
                let f = Finding { key: k.clone(), detail: format!("[{}] {d}", task_json(t)), replay: json!({"check":"C08","task":task_json(t),"choices":ch.choices}), weight: (ch.deviations(), ch.choices.len()), count: 1 };
                match local.get_mut(&k) {
                    Some(o) => {
                        o.count += 1;
                        if f.weight < o.weight {
                            let c = o.count;
                            *o = f;
                            o.count = c;
                        }
                    }
                    None => {
                        local.insert(k, f);
                    }
                }
            }
            local.values().map(|f| f.count).sum::<u64>() < 500
        });
        let mut a = agg.lock().unwrap();
        a.0.merge(&stats);
        a.1 += digests.len() as u64;
        a.2 += replays;
        for i in 0..3 {
            a.3[i] += obs_sum[i];
        }
        if let Some(s) = sample {
            if a.4.len() < 3 {
                a.4.push(s);
            }
        }
        drop(a);
        let mut g = findings.lock().unwrap();
        for (k, f) in local {
            match g.get_mut(&k) {
                Some(o) => {
                    o.count += f.count;
                    if f.weight < o.weight {
                        let c = o.count;
                        *o = f;
                        o.count = c;
                    }
                }
                None => {
                    g.insert(k, f);
                }
            }
        }
    });
    // ---- through the real Channel: unrelated traffic must not hold a round open --------------
    // (the strategy-level part above cannot see how long one receive call takes)
    let wtasks = wire_tasks(tier);
    let wagg = Mutex::new((mc::ExploreStats::default(), 0u64));
    mc::par_for(wtasks.len(), mc::workers(), |ti| {
        let t = &wtasks[ti];
        let mut local: BTreeMap<String, Finding> = BTreeMap::new();
        let mut rounds = 0u64;
        let stats = mc::explore(t.bound, 400, &mut |ch| {
            let c = std::mem::replace(ch, Chooser::new(&[], 0));
            let o = wire_run(t, c);
            *ch = o.world.chooser.clone();
            rounds += o.world.publishes.len() as u64;
            for (k, d) in wire_judge(t, &o) {
                let key = format!("{k}@{}", t.cell.name().split('/').take(2).collect::<Vec<_>>().join("/"));
                let e = local.entry(key.clone()).or_insert_with(|| Finding { key, detail: format!("[{} {} choices={:?}] {d}", t.cell.name(), t.topo, ch.choices), replay: crate::c01::replay_json("C08w", t, &ch.choices), weight: (ch.deviations(), ch.choices.len()), count: 0 });
                e.count += 1;
            }
            local.len() < 20
        });
        let mut a = wagg.lock().unwrap();
        a.0.merge(&stats);
        a.1 += rounds;
        drop(a);
        let mut g = findings.lock().unwrap();
        for (k, v) in local {
            g.entry(k).or_insert(v);
        }
    });
    let (wstats, wrounds) = wagg.into_inner().unwrap();
    rep.set("wire_level_executions", json!(wstats.executions));
    rep.set("wire_level_rounds_checked", json!(wrounds));
    // non-vacuity of the long runs: the default execution of each crosses a sequence restart
    let mut restarts_crossed = 0u64;
    for t in tasks.iter().filter(|t| t.init != 33434) {
        let o = strat::run_strategy(scfg(t), Chooser::new(&[], 0));
        let firsts: Vec<u16> = (0..o.world.publishes.len()).filter_map(|r| o.world.sends.iter().find(|s| s.round == r).map(|s| s.seq)).collect();
        let n = firsts.windows(2).filter(|w| w[1] <= w[0]).count() as u64;
        assert!(o.panic.is_some() || o.result.is_err() || n >= 1, "MACHINERY: the long C08 run does not cross a sequence restart");
        restarts_crossed += n;
    }
    rep.set("sequence_restarts_crossed_by_the_long_runs", json!(restarts_crossed));
    let (stats, digests, replays, obs, samples) = agg.into_inner().unwrap();
    rep.merge_findings(findings.into_inner().unwrap());
    rep.set("states", json!(stats.states));
    rep.set("transitions", json!(stats.transitions));
    rep.set("traces_validated_against_impl", json!(stats.executions));
    rep.set("evaluations", json!(stats.executions));
    rep.set("distinct_nontrivial", json!(digests));
    rep.set("executions_by_deviations", json!(stats.executions_by_dev));
    rep.set("tasks", json!(tasks.len()));
    rep.set("horizon_hits", json!(stats.horizon_hits));
    rep.set("determinism_replays", json!(replays));
    rep.observe("publishes_by_target_rule", json!(obs[0]));
    rep.observe("publishes_by_time_limit_only", json!(obs[1]));
    rep.observe("reason_target_found_when_only_max_fired", json!(obs[2]));
    rep.set("rule", json!("(min,max,grace) in {0,T,2T,3T}^3 with min<=max (40 settings) x target at {1,2,silent}; at every receive the environment picks none / any pending response and a time advance in {T,0,1ns,T-1ns}; quick: all executions with <=3 non-default answers over 2 rounds (<=40 choice points); thorough: the FULL product of the first 10 choice points (5 iterations) + <=4 deviations over 3 rounds. Monitor on the event trace: publish iff (dur>max) or (found and dur>min and now-last>grace), evaluated after every receive; dur <= max+T; reason; next round starts at the publish instant. + long runs: 64 silent hops per round, 20 rounds from initial sequence 64511 (the allocator restarts the sequence space every 8 rounds), 3 timing settings, <= 1 (2 thorough) deviations, same monitor on every round. Wire level: real Channel, 14 base cells x {silent path, 2-hop path}, unrelated ICMP Echo Requests arriving at the start or at the end of any receive wait, and delays, all executions with <= 3 (4 thorough) deviations: no round lasts longer than max + one read timeout from its first probe"));
    for s in samples {
        rep.sample(s);
    }
    rep.assumptions = vec!["abstract Network; virtual clock; 'reason' scoped as in DESIGN.md 5.5".into()];
    rep.finish()
}

/// Real Channel over the simulated socket: silent / answering paths, unrelated ICMP traffic
/// (Echo Requests) injected at any receive, <= bound injections.
fn wire_tasks(tier: Tier) -> Vec<crate::c01::Task> {
    use crate::drive::{self, TraceParams};
    let mut v = vec![];
    for cell in drive::base_cells() {
        for topo in ["silent-all", "L2"] {
            let p = TraceParams {
                first_ttl: 1,
                max_ttl: 3,
                rounds: 2,
                read_timeout: Duration::from_micros(400),
                min_round: Duration::from_micros(600),
                max_round: Duration::from_micros(1500),
                grace: Duration::from_micros(100),
                tcp_connect_timeout: Duration::from_millis(50),
                packet_size: if cell.v6 { 96 } else { 84 },
                ..TraceParams::default()
            };
            v.push(crate::c01::Task { cell, topo, params: p, bound: if tier == Tier::Thorough { 4 } else { 3 } });
        }
    }
    v
}

fn wire_run(t: &crate::c01::Task, ch: Chooser) -> crate::drive::RunOutcome {
    use crate::drive;
    let topo = drive::topo_named(&t.cell, t.topo);
    let menu = crate::simnet::Menu { junk: vec![crate::simnet::JunkKind::Inert], late_junk: true, delay: true, ..crate::simnet::Menu::default() };
    let net = drive::net_cfg(&t.cell, &t.params, topo, menu);
    drive::run_trace(&t.cell, &t.params, net, ch)
}

/// "never held open longer than max-round-duration plus one read timeout": measured from the
/// instant the round's first probe left to the instant the round was published; every datagram
/// handed over costs the simulator's delivery time on top.
fn wire_judge(t: &crate::c01::Task, o: &crate::drive::RunOutcome) -> Vec<(String, String)> {
    let mut bad = vec![];
    if let Some(p) = &o.panic {
        bad.push((p.key(), format!("{} at {}:{}", p.message, p.file, p.line)));
        return bad;
    }
    let w = &o.world;
    for (r, pb) in w.publishes.iter().enumerate() {
        let Some(start) = w.sent.iter().filter(|s| s.round == r).map(|s| s.time_ns).min() else { continue };
        let delivered = w.deliveries.iter().filter(|d| d.round == r).count() as u64;
        let allowed = (t.params.max_round + t.params.read_timeout).as_nanos() as u64 + (delivered + 2) * 1_000;
        let dur = pb.time_ns.saturating_sub(start);
        if dur > allowed {
            bad.push(("held-open-beyond-max-plus-read-timeout:wire".into(), format!("round {r} lasted {dur} ns from its first probe to its publication; max-round-duration + one read timeout (+ {delivered} deliveries) allows {allowed} ns")));
        }
    }
    bad
}

fn wire_replay(path: &str) -> i32 {
    let (t, choices) = crate::c01::load_task(path);
    let o = wire_run(&t, Chooser::new(&choices, 100_000));
    println!("replay C08 (wire level): cell={} topo={} choices={choices:?}", t.cell.name(), t.topo);
    crate::c01::print_trace(&o);
    let bad = wire_judge(&t, &o);
    for (k, d) in &bad {
        println!("DISCREPANCY {k}: {d}");
    }
    if bad.is_empty() {
        println!("replay: property held");
        0
    } else {
        println!("VIOLATION property=C08 replay={path}");
        1
    }
}

pub fn replay(path: &str) -> i32 {
    let s = std::fs::read_to_string(path).expect("MACHINERY: cannot read replay file");
    {
        let v: Value = serde_json::from_str(&s).expect("MACHINERY: replay JSON");
        let r = if v.get("replay").is_some() { &v["replay"] } else { &v };
        if r["check"].as_str() == Some("C08w") {
            return wire_replay(path);
        }
    }
    let v: Value = serde_json::from_str(&s).expect("MACHINERY: replay JSON");
    let r = if v.get("replay").is_some() { &v["replay"] } else { &v };
    let tj = &r["task"];
    let t = Task { min: tj["min_ns"].as_u64().unwrap(), max: tj["max_ns"].as_u64().unwrap(), grace: tj["grace_ns"].as_u64().unwrap(), l: tj["target_distance"].as_u64().unwrap() as u8, rounds: tj["rounds"].as_u64().unwrap() as usize, bound: 0, max_points: 100_000, init: tj["initial_sequence"].as_u64().map_or(33434, |x| x as u16), ttls: tj["hops_probed"].as_u64().map_or(3, |x| x as u8) };
    let choices: Vec<u16> = r["choices"].as_array().unwrap().iter().map(|c| c.as_u64().unwrap() as u16).collect();
    let o = strat::run_strategy(scfg(&t), Chooser::new(&choices, 100_000));
    println!("replay C08 task={} choices={choices:?}", task_json(&t));
    for e in &o.world.events {
        println!("  {e:?}");
    }
    for p in &o.world.publishes {
        println!("  publish t={} reason={:?}", p.time_ns, p.reason);
    }
    let (bad, _) = monitor(&t, &o);
    for (k, d) in &bad {
        println!("DISCREPANCY {k}: {d}");
    }
    if bad.is_empty() {
        println!("replay: property held");
        0
    } else {
        println!("VIOLATION property=C08 replay={path}");
        1
    }
}
