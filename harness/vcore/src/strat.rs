//! Strategy-level simulated network: implements the real `Network` trait with abstract
//! `Response`s (no packets), so that `Strategy::run` + `TracerState` can be explored cheaply
//! (C06, C07, C08).  Every nondeterministic answer is a choice point of the explorer.

use crate::mc::Chooser;
use crate::vclock;
use std::cell::RefCell;
use std::net::{IpAddr, Ipv4Addr};
use std::rc::Rc;
use std::time::Duration;
use trippy_core::verif::{
    Error, IcmpPacketCode, IcmpProtocolResponse, Network, ProtocolResponse, Response, ResponseData,
    StrategyConfig, TcpProtocolResponse, UdpProtocolResponse,
};
use trippy_core::{
    CompletionReason, MaxInflight, MaxRounds, MultipathStrategy, PortDirection, Probe, ProbeStatus, Protocol, Round,
    Sequence, Strategy, TimeToLive, TraceId,
};

pub const T_NS: u64 = 10_000_000; // read timeout: 10 ms
pub const DELTA_NS: u64 = 1_000_000; // default delivery latency: 1 ms

#[derive(Debug, Clone, Default)]
pub struct SMenu {
    pub delay: bool,
    pub reorder: bool,
    pub dup: bool,
    pub loss: bool,
    /// Offer `AddressInUse` at `send_probe` (TCP).
    pub addr_in_use: bool,
    /// Offer a transient `ProbeFailed` at `send_probe`.
    pub probe_failed: bool,
    /// Time advances offered at every `recv_probe` (index 0 is the default).  Empty = fixed
    /// (delta for a delivery, the read timeout for none).
    pub time_menu: Vec<u64>,
    /// Offer *every* kind (none / each pending) as a free choice rather than a deviation menu.
    pub free_kind: bool,
}

#[derive(Debug, Clone)]
pub struct SCfg {
    pub protocol: Protocol,
    /// Distance of the target; `None` = the target never answers.
    pub target_dist: Option<u8>,
    /// Path length used for hop answers when the target is silent.
    pub path_len: u8,
    /// TTLs whose router never answers.
    pub silent_hops: Vec<u8>,
    pub menu: SMenu,
    /// Force `AddressInUse` for `count` consecutive sends starting with the `at`-th send (0-based,
    /// counted over the whole run).
    pub burst: Vec<(usize, usize)>,
    /// Scripted extra responses: (deliver at the k-th recv_probe call, sequence named).
    pub script: Vec<(usize, u16)>,
    /// A response becomes deliverable only this many `recv_probe` calls after its probe was sent
    /// (round-trip time longer than the loop period: several probes are in flight).
    pub latency: usize,
    /// Equal-cost multipath: probes whose ttl has parity `.1` travel a branch that is `.0` hops
    /// longer, so on that branch the ttls d..d+extra-1 are answered by routers (0 = single path).
    pub ecmp_longer: (u8, u8),
    pub strategy: StrategyConfig,
}

pub fn target_addr() -> IpAddr {
    IpAddr::V4(Ipv4Addr::new(10, 9, 9, 9))
}

pub fn hop_addr(ttl: u8) -> IpAddr {
    IpAddr::V4(Ipv4Addr::new(10, 0, ttl, 254))
}

#[allow(clippy::too_many_arguments)]
pub fn strategy_config(
    protocol: Protocol,
    first_ttl: u8,
    max_ttl: u8,
    max_inflight: u8,
    rounds: usize,
    min_round: Duration,
    max_round: Duration,
    grace: Duration,
    initial_sequence: u16,
) -> StrategyConfig {
    StrategyConfig {
        target_addr: target_addr(),
        protocol,
        trace_identifier: TraceId(0x1234),
        max_rounds: Some(MaxRounds(std::num::NonZeroUsize::new(rounds).unwrap())),
        first_ttl: TimeToLive(first_ttl),
        max_ttl: TimeToLive(max_ttl),
        grace_duration: grace,
        max_inflight: MaxInflight(max_inflight),
        initial_sequence: Sequence(initial_sequence),
        multipath_strategy: MultipathStrategy::Classic,
        port_direction: match protocol {
            Protocol::Icmp => PortDirection::None,
            _ => PortDirection::new_fixed_src(5000),
        },
        min_round_duration: min_round,
        max_round_duration: max_round,
    }
}

#[derive(Debug, Clone, PartialEq, Eq)]
pub enum SendOutcome {
    Ok,
    AddrInUse,
    Failed,
}

#[derive(Debug, Clone)]
pub struct SendRec {
    pub time_ns: u64,
    pub round: usize,
    pub ttl: u8,
    pub seq: u16,
    pub probe_round: usize,
    pub outcome: SendOutcome,
    pub sport: u16,
    pub dport: u16,
    pub identifier: u16,
}

#[derive(Debug, Clone)]
pub struct Pend {
    pub ready_call: usize,
    pub for_send: usize,
    pub is_target: bool,
    pub addr: IpAddr,
    pub dup_done: bool,
}

#[derive(Debug, Clone)]
pub struct DelivRec {
    pub time_ns: u64,
    pub round: usize,
    pub for_send: Option<usize>,
    pub seq: u16,
    pub is_target: bool,
    pub first: bool,
    pub scripted: bool,
}

#[derive(Debug, Clone)]
pub struct PubRec {
    pub time_ns: u64,
    pub probes: Vec<ProbeStatus>,
    pub largest_ttl: u8,
    pub reason: CompletionReason,
}

/// One entry per socket-level call, in order (for the C08 "before the next socket call" clause).
#[derive(Debug, Clone, PartialEq, Eq)]
pub enum Ev {
    Send(usize),
    Recv { time_ns: u64, delivered: bool },
    Publish(usize),
}

pub struct SWorld {
    pub cfg: SCfg,
    pub chooser: Chooser,
    pub sends: Vec<SendRec>,
    pub pending: Vec<Pend>,
    pub deliveries: Vec<DelivRec>,
    pub publishes: Vec<PubRec>,
    pub events: Vec<Ev>,
    pub round: usize,
    pub recv_calls: usize,
    pub start_ns: u64,
}

#[derive(Clone)]
pub struct SNet(pub Rc<RefCell<SWorld>>);

impl SWorld {
    /// Build the `Response` the channel would produce for a quotation of probe `s` (the template
    /// for ports / identifier) naming sequence `seq`.
    fn response_for(&self, s: &SendRec, is_target: bool, addr: IpAddr, seq: u16) -> Response {
        let now = vclock::from_ns(vclock::get());
        let sc = &self.cfg.strategy;
        let proto = match sc.protocol {
            Protocol::Icmp => ProtocolResponse::Icmp(IcmpProtocolResponse::new(sc.trace_identifier.0, seq, None)),
            Protocol::Udp => {
                let (mut sport, mut dport, mut ident, mut cksum, mut plen, mut magic) = (s.sport, s.dport, s.identifier, 0u16, 0u16, false);
                match (sc.multipath_strategy, sc.port_direction, sc.target_addr) {
                    (MultipathStrategy::Classic, PortDirection::FixedDest(_), _) => sport = seq,
                    (MultipathStrategy::Classic, _, _) => dport = seq,
                    (MultipathStrategy::Paris, _, _) => cksum = seq,
                    (MultipathStrategy::Dublin, _, IpAddr::V4(_)) => ident = seq,
                    (MultipathStrategy::Dublin, _, IpAddr::V6(_)) => {
                        plen = seq.wrapping_sub(sc.initial_sequence.0);
                        magic = true;
                    }
                }
                ProtocolResponse::Udp(UdpProtocolResponse::new(ident, sc.target_addr, sport, dport, None, cksum, cksum, plen, magic))
            }
            Protocol::Tcp => {
                let (sport, dport) = match sc.port_direction {
                    PortDirection::FixedSrc(_) => (s.sport, seq),
                    _ => (seq, s.dport),
                };
                ProtocolResponse::Tcp(TcpProtocolResponse::new(sc.target_addr, sport, dport, None))
            }
        };
        let data = ResponseData::new(now, addr, proto);
        if is_target {
            match sc.protocol {
                Protocol::Icmp => Response::EchoReply(data, IcmpPacketCode(0)),
                Protocol::Udp => Response::DestinationUnreachable(data, IcmpPacketCode(3), None),
                Protocol::Tcp => Response::TcpReply(data),
            }
        } else {
            Response::TimeExceeded(data, IcmpPacketCode(0), None)
        }
    }
}

impl Network for SNet {
    fn send_probe(&mut self, probe: Probe) -> Result<(), Error> {
        let mut w = self.0.borrow_mut();
        let idx = w.sends.len();
        let forced = w.cfg.burst.iter().any(|&(at, n)| idx >= at && idx < at + n);
        let mut outcome = SendOutcome::Ok;
        if forced {
            outcome = SendOutcome::AddrInUse;
        } else {
            let mut alts = vec![SendOutcome::Ok];
            if w.cfg.menu.addr_in_use {
                alts.push(SendOutcome::AddrInUse);
            }
            if w.cfg.menu.probe_failed {
                alts.push(SendOutcome::Failed);
            }
            if alts.len() > 1 {
                let c = w.chooser.choose(alts.len());
                outcome = alts[c].clone();
            }
        }
        let round = w.round;
        w.sends.push(SendRec {
            time_ns: vclock::get(),
            round,
            ttl: probe.ttl.0,
            seq: probe.sequence.0,
            probe_round: probe.round.0,
            outcome: outcome.clone(),
            sport: probe.src_port.0,
            dport: probe.dest_port.0,
            identifier: probe.identifier.0,
        });
        w.events.push(Ev::Send(idx));
        match outcome {
            SendOutcome::Ok => {
                let ttl = probe.ttl.0;
                let extra = if w.cfg.ecmp_longer.0 > 0 && ttl % 2 == w.cfg.ecmp_longer.1 { w.cfg.ecmp_longer.0 } else { 0 };
                let reaches_target = w.cfg.target_dist.is_some_and(|d| u16::from(ttl) >= u16::from(d) + u16::from(extra));
                if extra > 0 && w.cfg.target_dist.is_some_and(|d| ttl >= d) && !reaches_target {
                    // the last router of the longer branch
                    let ready_call = w.recv_calls + w.cfg.latency;
                    w.pending.push(Pend { ready_call, for_send: idx, is_target: false, addr: IpAddr::V4(Ipv4Addr::new(10, 1, ttl, 253)), dup_done: false });
                } else if reaches_target {
                    let addr = w.cfg.strategy.target_addr;
                    let ready_call = w.recv_calls + w.cfg.latency;
                    w.pending.push(Pend { ready_call, for_send: idx, is_target: true, addr, dup_done: false });
                } else if ttl < w.cfg.target_dist.unwrap_or(w.cfg.path_len) && !w.cfg.silent_hops.contains(&ttl) {
                    let ready_call = w.recv_calls + w.cfg.latency;
                    w.pending.push(Pend { ready_call, for_send: idx, is_target: false, addr: hop_addr(ttl), dup_done: false });
                }
                Ok(())
            }
            SendOutcome::AddrInUse => Err(Error::AddressInUse(std::net::SocketAddr::new(IpAddr::V4(Ipv4Addr::LOCALHOST), probe.src_port.0))),
            SendOutcome::Failed => Err(Error::ProbeFailed(trippy_core::verif::IoError::SendTo(
                std::io::Error::from_raw_os_error(113),
                std::net::SocketAddr::new(target_addr(), 0),
            ))),
        }
    }

    fn recv_probe(&mut self) -> Result<Option<Response>, Error> {
        let mut w = self.0.borrow_mut();
        let call = w.recv_calls;
        w.recv_calls += 1;
        // time horizon: a run of n rounds ends within n x (max-round-duration + read timeout); one
        // that is still receiving after twice that (plus a second) will never end
        let rounds = w.cfg.strategy.max_rounds.map_or(1, |m| m.0.get()) as u64;
        let per_round = w.cfg.strategy.max_round_duration.as_nanos() as u64 + 2 * T_NS + 600 * DELTA_NS;
        if vclock::get() > w.start_ns + 2 * rounds * per_round + 1_000_000_000 {
            return Err(Error::Other(format!("verif: the run has not ended {} ns after it started ({rounds} rounds of at most {} ns): it never will", vclock::get() - w.start_ns, per_round)));
        }
        // scripted extra response (C07 separation clause / C03-style injections at strategy level)
        if let Some(&(_, seq)) = w.cfg.script.iter().find(|(k, _)| *k == call) {
            vclock::advance(DELTA_NS);
            // ports / identifier of the most recent probe, sequence-bearing field overridden
            let template = w.sends.last().cloned().unwrap_or(SendRec { time_ns: 0, round: 0, ttl: 0, seq, probe_round: 0, outcome: SendOutcome::Ok, sport: 5000, dport: 3500, identifier: 0 });
            let r = w.response_for(&template, false, hop_addr(1), seq);
            let (t, round) = (vclock::get(), w.round);
            w.deliveries.push(DelivRec { time_ns: t, round, for_send: None, seq, is_target: false, first: false, scripted: true });
            w.events.push(Ev::Recv { time_ns: t, delivered: true });
            return Ok(Some(r));
        }
        #[derive(Clone)]
        enum Alt {
            Deliver(usize),
            Timeout,
            Dup,
            Loss,
        }
        // responses whose latency has elapsed, oldest first (indices into `pending`)
        let ready: Vec<usize> = (0..w.pending.len()).filter(|j| w.pending[*j].ready_call <= call).collect();
        let p = ready.len();
        let m = w.cfg.menu.clone();
        let mut alts = vec![];
        if m.free_kind {
            alts.push(Alt::Timeout);
            for j in &ready {
                alts.push(Alt::Deliver(*j));
            }
        } else if p > 0 {
            alts.push(Alt::Deliver(ready[0]));
            if m.delay {
                alts.push(Alt::Timeout);
            }
            if m.reorder {
                for j in &ready[1..] {
                    alts.push(Alt::Deliver(*j));
                }
            }
            if m.dup && !w.pending[ready[0]].dup_done {
                alts.push(Alt::Dup);
            }
            if m.loss {
                alts.push(Alt::Loss);
            }
        } else {
            alts.push(Alt::Timeout);
        }
        let first_ready = ready.first().copied().unwrap_or(0);
        let c = w.chooser.choose(alts.len());
        let alt = alts[c].clone();
        let dt = if m.time_menu.is_empty() {
            match alt {
                Alt::Timeout => T_NS,
                Alt::Loss if p <= 1 => T_NS,
                _ => DELTA_NS,
            }
        } else {
            let k = w.chooser.choose(m.time_menu.len());
            m.time_menu[k]
        };
        vclock::advance(dt);
        let now = vclock::get();
        let round = w.round;
        let deliver = |w: &mut SWorld, pe: Pend| -> Response {
            let s = w.sends[pe.for_send].clone();
            let first = !w.deliveries.iter().any(|d| d.for_send == Some(pe.for_send));
            w.deliveries.push(DelivRec { time_ns: now, round, for_send: Some(pe.for_send), seq: s.seq, is_target: pe.is_target, first, scripted: false });
            w.events.push(Ev::Recv { time_ns: now, delivered: true });
            w.response_for(&s, pe.is_target, pe.addr, s.seq)
        };
        match alt {
            Alt::Timeout => {
                w.events.push(Ev::Recv { time_ns: now, delivered: false });
                Ok(None)
            }
            Alt::Deliver(j) => {
                let pe = w.pending.remove(j);
                Ok(Some(deliver(&mut w, pe)))
            }
            Alt::Dup => {
                w.pending[first_ready].dup_done = true;
                let pe = w.pending[first_ready].clone();
                Ok(Some(deliver(&mut w, pe)))
            }
            Alt::Loss => {
                w.pending.remove(first_ready);
                let next = (0..w.pending.len()).find(|j| w.pending[*j].ready_call <= call);
                match next {
                    None => {
                        w.events.push(Ev::Recv { time_ns: now, delivered: false });
                        Ok(None)
                    }
                    Some(j) => {
                        let pe = w.pending.remove(j);
                        Ok(Some(deliver(&mut w, pe)))
                    }
                }
            }
        }
    }
}

pub struct SOutcome {
    pub world: SWorld,
    pub result: Result<(), String>,
    pub panic: Option<crate::mc::PanicInfo>,
}

/// Run the real `Strategy::run` over the strategy-level network.
pub fn run_strategy(cfg: SCfg, chooser: Chooser) -> SOutcome {
    vclock::set(Some(1_000_000_000));
    let world = Rc::new(RefCell::new(SWorld {
        cfg: cfg.clone(),
        chooser,
        sends: vec![],
        pending: vec![],
        deliveries: vec![],
        publishes: vec![],
        events: vec![],
        round: 0,
        recv_calls: 0,
        start_ns: vclock::get(),
    }));
    let w2 = world.clone();
    let net = SNet(world.clone());
    let sc = cfg.strategy;
    let r = crate::mc::catch(move || {
        Strategy::new(&sc, |round: &Round<'_>| {
            let mut w = w2.borrow_mut();
            let idx = w.publishes.len();
            w.publishes.push(PubRec {
                time_ns: vclock::get(),
                probes: round.probes.to_vec(),
                largest_ttl: round.largest_ttl.0,
                reason: round.reason,
            });
            w.events.push(Ev::Publish(idx));
            w.round += 1;
        })
        .run(net)
    });
    vclock::set(None);
    let (result, panic) = match r {
        Ok(Ok(())) => (Ok(()), None),
        Ok(Err(e)) => (Err(format!("{e:?}")), None),
        Err(p) => (Err(format!("panic: {}", p.message)), Some(p)),
    };
    let world = match Rc::try_unwrap(world) {
        Ok(c) => c.into_inner(),
        Err(_) => panic!("MACHINERY: strategy world still shared after the run"),
    };
    SOutcome { world, result, panic }
}
