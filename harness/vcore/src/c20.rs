//! C20 — snapshots are round-atomic while the tracer runs.
//! E4: every interleaving of the lock operations of real threads (tracer, snapshot readers,
//! clearer) on one real `Tracer`; oracle = linearizability against the sequential `State`.

use crate::drive::{self, Cell, Ports, TraceParams};
use crate::mc::{self, Chooser};
use crate::refstate::{self, RoundRec};
use crate::report::{Args, Finding, Report, Tier};
use crate::sched::{Sched, SchedEvent};
use crate::simnet::{self, Menu, Proto, SimSocket};
use crate::stateexp;
use serde_json::{json, Value};
use std::collections::{BTreeMap, HashSet};
use std::sync::{Arc, Mutex};
use trippy_core::verif::StateConfig;
use trippy_core::{MultipathStrategy, State};

#[derive(Debug, Clone)]
pub struct Cfg {
    pub rounds: usize,
    /// snapshots taken by each reader thread
    pub readers: Vec<usize>,
    pub clears: usize,
    /// make the k-th select call of the tracer fail fatally (the error path takes the write lock)
    pub fatal_at_select: Option<usize>,
    /// instead of running the strategy, the tracer thread publishes these scripted rounds through
    /// the same handler (`verif_apply_round`): shapes whose path length changes between rounds
    pub script: Vec<u8>,
    /// the tracer's flow limit (0 = flow tracking off)
    pub max_flows: usize,
}

/// Scripted round shapes: 0 = target found at 2 with probes for ttl 3 and 4 still in flight,
/// 1 = four answering hops, 2 = another ECMP branch (new flow) of length 3, 3 = nothing answered
/// (three probes in flight, path length 0), 4 / 5 = a round whose first slot is Failed / Skipped.
fn script_round(kind: u8, i: usize) -> RoundRec {
    use stateexp::{Out, Shape};
    let c = |sel: u8| Out::C(2_000_000 + 1000 * i as u64, sel, None, None);
    let shape = match kind {
        0 => Shape { first_ttl: 1, outs: vec![c(1), c(1), Out::A, Out::A], largest_ttl: Some(2) },
        1 => Shape { first_ttl: 1, outs: vec![c(1), c(1), c(1), c(1)], largest_ttl: None },
        3 => Shape { first_ttl: 1, outs: vec![Out::A, Out::A, Out::A], largest_ttl: Some(0) },
        // the first send of the round failed / found its port taken (slot 0 Failed / Skipped)
        4 => Shape { first_ttl: 1, outs: vec![Out::F, c(1), c(1)], largest_ttl: None },
        5 => Shape { first_ttl: 1, outs: vec![Out::S, c(1), c(1), c(1)], largest_ttl: None },
        _ => Shape { first_ttl: 1, outs: vec![c(1), c(2), c(1)], largest_ttl: None },
    };
    stateexp::build(&shape, i, (i as u16) * 16)
}

#[derive(Debug, Clone)]
pub enum OpKind {
    Apply(usize),
    Clear,
    Snapshot { digest: u64, rounds_seen: usize, has_error: bool },
    SetError,
}

#[derive(Debug, Clone)]
pub struct Op {
    pub tid: usize,
    pub kind: OpKind,
    pub call: u64,
    pub ret: u64,
}

pub struct Outcome {
    pub ops: Vec<Op>,
    pub rounds: Vec<RoundRec>,
    pub chooser: Chooser,
    pub trace: Vec<SchedEvent>,
    pub deadlock: bool,
    pub model_errors: Vec<String>,
    pub thread_panics: Vec<String>,
    pub state_cfg: StateConfig,
}

fn digest(st: &State) -> u64 {
    // all getters of all flows (the error text is compared separately, by presence) and the
    // state's own limits: "an empty state" after a clear means this tracer's empty state
    crate::mc::hash64(&(refstate::state_key(st), st.max_samples(), st.max_flows()))
}

struct EndGuard(Arc<Sched>, usize);
impl Drop for EndGuard {
    fn drop(&mut self) {
        self.0.thread_end(self.1);
    }
}

pub fn run_once(cfg: &Cfg, chooser: Chooser) -> Outcome {
    let cell = Cell { proto: Proto::Icmp, v6: false, strategy: MultipathStrategy::Classic, ports: Ports::None, privileged: true, ext: false };
    let p = TraceParams { rounds: cfg.rounds, max_flows: cfg.max_flows, max_samples: 8, ..TraceParams::default() };
    let tracer = drive::build_tracer(&cell, &p).expect("MACHINERY: tracer build");
    let nthreads = 1 + cfg.readers.len() + usize::from(cfg.clears > 0);
    let sched = Sched::new(nthreads, chooser);
    let ops: Arc<Mutex<Vec<Op>>> = Arc::new(Mutex::new(vec![]));
    let rounds: Arc<Mutex<Vec<RoundRec>>> = Arc::new(Mutex::new(vec![]));
    let query_panics: Arc<Mutex<Vec<String>>> = Arc::new(Mutex::new(vec![]));
    let mut handles = vec![];
    // tracer thread (tid 0)
    {
        let (sched, tracer, ops, rounds, cfg) = (sched.clone(), tracer.clone(), ops.clone(), rounds.clone(), cfg.clone());
        let p = p.clone();
        handles.push(std::thread::spawn(move || {
            sched.thread_begin(0);
            let _g = EndGuard(sched.clone(), 0);
            if !cfg.script.is_empty() {
                let mut last = sched.mark(0, "run-start");
                for (i, k) in cfg.script.iter().enumerate() {
                    let rr = script_round(*k, i);
                    tracer.verif_apply_round(&trippy_core::Round::new(&rr.probes, trippy_core::TimeToLive(rr.largest_ttl), trippy_core::CompletionReason::TargetFound));
                    let ret = sched.mark(0, "publish-callback");
                    let idx = {
                        let mut rs = rounds.lock().unwrap();
                        rs.push(rr);
                        rs.len() - 1
                    };
                    ops.lock().unwrap_or_else(std::sync::PoisonError::into_inner).push(Op { tid: 0, kind: OpKind::Apply(idx), call: last, ret });
                    last = ret;
                }
                sched.mark(0, "run-end");
                return;
            }
            let topo = drive::topo_named(&cell, "L2");
            let mut menu = Menu::default();
            let world_chooser = match cfg.fatal_at_select {
                Some(k) => {
                    menu.select_faults = vec![simnet::EIO];
                    let mut prefix = vec![0u16; k];
                    prefix.push(1);
                    Chooser::new(&prefix, 10_000)
                }
                None => Chooser::new(&[], 0),
            };
            let net = drive::net_cfg(&cell, &p, topo, menu);
            simnet::install(net, world_chooser);
            let last_cb = std::cell::Cell::new(sched.mark(0, "run-start"));
            let r = tracer.verif_run_with::<SimSocket, _>(cell.src(), |round| {
                let ret = sched.mark(0, "publish-callback");
                let i = {
                    let mut rs = rounds.lock().unwrap();
                    rs.push(RoundRec { probes: round.probes.to_vec(), largest_ttl: round.largest_ttl.0 });
                    rs.len() - 1
                };
                ops.lock().unwrap().push(Op { tid: 0, kind: OpKind::Apply(i), call: last_cb.get(), ret });
                last_cb.set(ret);
            });
            let end = sched.mark(0, "run-end");
            if r.is_err() {
                ops.lock().unwrap().push(Op { tid: 0, kind: OpKind::SetError, call: last_cb.get(), ret: end });
            }
            let _ = simnet::take();
        }));
    }
    // reader threads
    for (ri, k) in cfg.readers.iter().enumerate() {
        let tid = 1 + ri;
        let (sched, tracer, ops, k, query_panics) = (sched.clone(), tracer.clone(), ops.clone(), *k, query_panics.clone());
        handles.push(std::thread::spawn(move || {
            sched.thread_begin(tid);
            let _g = EndGuard(sched.clone(), tid);
            for _ in 0..k {
                let call = sched.mark(tid, "snapshot-call");
                let st = tracer.snapshot();
                let ret = sched.mark(tid, "snapshot-return");
                // querying a torn snapshot may panic inside the code under test: that is an
                // observation (a snapshot no sequential history explains), not a harness failure
                let (d, rounds_seen) = match mc::catch(|| (digest(&st), st.round_count(State::default_flow_id()))) {
                    Ok(x) => x,
                    Err(pn) => {
                        query_panics.lock().unwrap_or_else(std::sync::PoisonError::into_inner).push(pn.key());
                        (0xdead_dead_dead_dead, usize::MAX)
                    }
                };
                ops.lock().unwrap_or_else(std::sync::PoisonError::into_inner).push(Op { tid, kind: OpKind::Snapshot { digest: d, rounds_seen, has_error: st.error().is_some() }, call, ret });
            }
        }));
    }
    if cfg.clears > 0 {
        let tid = 1 + cfg.readers.len();
        let (sched, tracer, ops, c) = (sched.clone(), tracer.clone(), ops.clone(), cfg.clears);
        handles.push(std::thread::spawn(move || {
            sched.thread_begin(tid);
            let _g = EndGuard(sched.clone(), tid);
            for _ in 0..c {
                let call = sched.mark(tid, "clear-call");
                tracer.clear();
                let ret = sched.mark(tid, "clear-return");
                ops.lock().unwrap().push(Op { tid, kind: OpKind::Clear, call, ret });
            }
        }));
    }
    sched.start();
    let mut thread_panics = vec![];
    for h in handles {
        if let Err(e) = h.join() {
            thread_panics.push(mc::panic_message(&e));
        }
    }
    let (chooser, trace, deadlock, model_errors) = sched.finish();
    let ops = ops.lock().unwrap_or_else(std::sync::PoisonError::into_inner).clone();
    let rounds = rounds.lock().unwrap_or_else(std::sync::PoisonError::into_inner).clone();
    for q in query_panics.lock().unwrap_or_else(std::sync::PoisonError::into_inner).iter() {
        thread_panics.push(format!("querying a snapshot panicked: {q}"));
    }
    Outcome { ops, rounds, chooser, trace, deadlock, model_errors, thread_panics, state_cfg: StateConfig { max_samples: p.max_samples, max_flows: p.max_flows } }
}

/// Brute-force linearizability: is there a total order of the operations, consistent with
/// real-time order (a.ret < b.call => a before b), such that replaying it on a fresh real `State`
/// yields every observed snapshot?
pub fn linearizable(o: &Outcome) -> Result<Vec<usize>, String> {
    let n = o.ops.len();
    let mut preds: Vec<Vec<usize>> = vec![vec![]; n];
    for a in 0..n {
        for b in 0..n {
            if a != b && o.ops[a].ret < o.ops[b].call {
                preds[b].push(a);
            }
        }
    }
    fn rec(o: &Outcome, preds: &[Vec<usize>], placed: &mut Vec<usize>, used: &mut Vec<bool>, model: &State, tried: &mut u64) -> bool {
        if placed.len() == o.ops.len() {
            return true;
        }
        for i in 0..o.ops.len() {
            if used[i] || preds[i].iter().any(|p| !used[*p]) {
                continue;
            }
            *tried += 1;
            let mut next = model.clone();
            let ok = match &o.ops[i].kind {
                OpKind::Apply(r) => {
                    stateexp::apply(&mut next, &o.rounds[*r]);
                    true
                }
                OpKind::Clear => {
                    next = State::new(o.state_cfg);
                    true
                }
                OpKind::SetError => {
                    next.set_error(Some("error".into()));
                    true
                }
                OpKind::Snapshot { digest: d, has_error, .. } => {
                    // the error text is whatever the run produced; compare state + presence
                    *has_error == next.error().is_some() && *d == digest(&next)
                }
            };
            if ok {
                used[i] = true;
                placed.push(i);
                if rec(o, preds, placed, used, &next, tried) {
                    return true;
                }
                placed.pop();
                used[i] = false;
            }
        }
        false
    }
    let mut placed = vec![];
    let mut used = vec![false; n];
    let mut tried = 0;
    let model = State::new(o.state_cfg);
    if rec(o, &preds, &mut placed, &mut used, &model, &mut tried) {
        Ok(placed)
    } else {
        Err(format!("no linearization of {n} operations explains the observed snapshots ({tried} placements tried)"))
    }
}

fn cfg_json(c: &Cfg) -> Value {
    json!({"rounds": c.rounds, "readers": c.readers, "clears": c.clears, "fatal_at_select": c.fatal_at_select, "script": c.script, "max_flows": c.max_flows})
}

pub fn judge(o: &Outcome) -> Vec<(String, String)> {
    let mut bad = vec![];
    if o.deadlock {
        bad.push(("deadlock".into(), "no enabled thread although not all finished".into()));
    }
    for e in &o.model_errors {
        bad.push(("MACHINERY-lock-model".into(), e.clone()));
    }
    for p in &o.thread_panics {
        bad.push((format!("thread-panic:{}", p.chars().take(60).collect::<String>()), p.clone()));
    }
    if let Err(e) = linearizable(o) {
        let snaps: Vec<String> = o.ops.iter().filter_map(|op| match &op.kind {
            OpKind::Snapshot { rounds_seen, has_error, .. } => Some(format!("t{}:[{}..{}] sees {rounds_seen} rounds error={has_error}", op.tid, op.call, op.ret)),
            _ => None,
        }).collect();
        bad.push(("snapshot-not-round-atomic".into(), format!("{e}; snapshots: {snaps:?}")));
    }
    bad
}

pub fn run(args: &Args) -> i32 {
    if let Some(path) = &args.replay {
        return replay(path);
    }
    let tier = args.tier;
    let mut rep = Report::new("C20", tier, "model_checking");
    let cfgs: Vec<Cfg> = match tier {
        Tier::Quick => vec![
            Cfg { rounds: 2, readers: vec![2], clears: 1, fatal_at_select: None, script: vec![], max_flows: 4 },
            Cfg { rounds: 3, readers: vec![2], clears: 1, fatal_at_select: None, script: vec![], max_flows: 4 },
            Cfg { rounds: 2, readers: vec![1, 1], clears: 1, fatal_at_select: None, script: vec![], max_flows: 4 },
            Cfg { rounds: 2, readers: vec![2], clears: 1, fatal_at_select: Some(9), script: vec![], max_flows: 4 },
            // scripted publisher: the path grows after a clear / a new flow appears
            Cfg { rounds: 2, readers: vec![2], clears: 1, fatal_at_select: None, script: vec![0, 1], max_flows: 4 },
            Cfg { rounds: 3, readers: vec![2], clears: 1, fatal_at_select: None, script: vec![0, 2, 1], max_flows: 4 },
            // the state's boundary shapes: flow tracking off, rounds in which nothing answered
            Cfg { rounds: 2, readers: vec![2], clears: 1, fatal_at_select: None, script: vec![3, 3], max_flows: 0 },
            Cfg { rounds: 3, readers: vec![2], clears: 1, fatal_at_select: None, script: vec![3, 1, 3], max_flows: 1 },
            Cfg { rounds: 3, readers: vec![2], clears: 1, fatal_at_select: None, script: vec![1, 4, 5], max_flows: 4 },
        ],
        Tier::Thorough => vec![
            Cfg { rounds: 2, readers: vec![2], clears: 1, fatal_at_select: None, script: vec![], max_flows: 4 },
            Cfg { rounds: 3, readers: vec![2], clears: 1, fatal_at_select: None, script: vec![], max_flows: 4 },
            Cfg { rounds: 3, readers: vec![3], clears: 2, fatal_at_select: None, script: vec![], max_flows: 4 },
            Cfg { rounds: 4, readers: vec![3], clears: 2, fatal_at_select: None, script: vec![], max_flows: 4 },
            Cfg { rounds: 3, readers: vec![2, 2], clears: 1, fatal_at_select: None, script: vec![], max_flows: 4 },
            Cfg { rounds: 2, readers: vec![2], clears: 2, fatal_at_select: Some(9), script: vec![], max_flows: 4 },
            Cfg { rounds: 3, readers: vec![2, 1], clears: 1, fatal_at_select: Some(14), script: vec![], max_flows: 4 },
            Cfg { rounds: 2, readers: vec![2], clears: 1, fatal_at_select: None, script: vec![0, 1], max_flows: 4 },
            Cfg { rounds: 3, readers: vec![3], clears: 2, fatal_at_select: None, script: vec![0, 2, 1], max_flows: 4 },
            Cfg { rounds: 4, readers: vec![2, 1], clears: 1, fatal_at_select: None, script: vec![1, 0, 2, 1], max_flows: 4 },
            Cfg { rounds: 2, readers: vec![2], clears: 1, fatal_at_select: None, script: vec![3, 3], max_flows: 0 },
            Cfg { rounds: 3, readers: vec![3], clears: 2, fatal_at_select: None, script: vec![3, 3, 1], max_flows: 0 },
            Cfg { rounds: 3, readers: vec![2], clears: 1, fatal_at_select: None, script: vec![3, 1, 3], max_flows: 1 },
            Cfg { rounds: 3, readers: vec![2], clears: 1, fatal_at_select: None, script: vec![], max_flows: 0 },
            Cfg { rounds: 4, readers: vec![2], clears: 1, fatal_at_select: None, script: vec![1, 4, 5, 1], max_flows: 4 },
        ],
    };
    let findings: Mutex<BTreeMap<String, Finding>> = Mutex::new(BTreeMap::new());
    let agg = Mutex::new((mc::ExploreStats::default(), 0u64, 0u64, 0u64, vec![], 0usize));
    mc::par_for(cfgs.len(), mc::workers().min(cfgs.len()), |ci| {
        let cfg = &cfgs[ci];
        let mut outcomes: HashSet<u64> = HashSet::new();
        let mut local: BTreeMap<String, Finding> = BTreeMap::new();
        let mut first = true;
        let mut replays = 0u64;
        let mut max_preempt = 0usize;
        let mut sample = None;
        let mut mixed = 0u64;
        // the space is small: no preemption bound (bound = number of choice points at most)
        let stats = mc::explore(usize::MAX >> 1, 10_000, &mut |ch| {
            let c = std::mem::replace(ch, Chooser::new(&[], 0));
            let o = run_once(cfg, c);
            *ch = o.chooser.clone();
            max_preempt = max_preempt.max(ch.deviations());
            let obs: Vec<(usize, usize, bool)> = o.ops.iter().filter_map(|op| match &op.kind {
                OpKind::Snapshot { rounds_seen, has_error, .. } => Some((op.tid, *rounds_seen, *has_error)),
                _ => None,
            }).collect();
            outcomes.insert(mc::hash64(&obs));
            if obs.iter().any(|x| x.1 > 0) && obs.iter().any(|x| x.1 == 0) {
                mixed += 1;
            }
            let bad = judge(&o);
            if first || !bad.is_empty() {
                // determinism: same schedule, same observations
                let o2 = run_once(cfg, Chooser::new(&ch.choices, 10_000));
                let obs2: Vec<(usize, usize, bool)> = o2.ops.iter().filter_map(|op| match &op.kind {
                    OpKind::Snapshot { rounds_seen, has_error, .. } => Some((op.tid, *rounds_seen, *has_error)),
                    _ => None,
                }).collect();
                assert!(obs2 == obs && o2.chooser.choices == ch.choices, "MACHINERY: schedule replay diverged (C20)");
                replays += 1;
                if first {
                    sample = Some(json!({"config": cfg_json(cfg), "schedule": ch.choices, "snapshots": obs.iter().map(|x| format!("thread {} saw {} rounds", x.0, x.1)).collect::<Vec<_>>(), "events": o.trace.iter().take(40).map(|e| format!("{}:t{}:{}", e.step, e.tid, e.what)).collect::<Vec<_>>()}));
                }
                first = false;
            }
            for (k, d) in bad {
                let f = Finding { key: k.clone(), detail: format!("[{}] schedule {:?}: {d}", cfg_json(cfg), ch.choices), replay: json!({"check":"C20","config":cfg_json(cfg),"schedule":ch.choices}), weight: (ch.deviations(), ch.choices.len()), count: 1 };
                match local.get_mut(&k) {
                    Some(old) => {
                        old.count += 1;
                        if f.weight < old.weight {
                            let c = old.count;
                            *old = f;
                            old.count = c;
                        }
                    }
                    None => {
                        local.insert(k, f);
                    }
                }
            }
            local.values().map(|f| f.count).sum::<u64>() < 50
        });
        let mut a = agg.lock().unwrap();
        a.0.merge(&stats);
        a.1 += outcomes.len() as u64;
        a.2 += replays;
        a.3 += mixed;
        if let Some(s) = sample {
            a.4.push(s);
        }
        a.5 = a.5.max(max_preempt);
        drop(a);
        let mut g = findings.lock().unwrap();
        for (k, f) in local {
            match g.get_mut(&k) {
                Some(o) => {
                    o.count += f.count;
                    if f.weight < o.weight {
                        let c = o.count;
                        *o = f;
                        o.count = c;
                    }
                }
                None => {
                    g.insert(k, f);
                }
            }
        }
    });
    let (stats, outcomes, replays, mixed, samples, max_preempt) = agg.into_inner().unwrap();
    rep.merge_findings(findings.into_inner().unwrap());
    rep.set("states", json!(stats.states));
    rep.set("transitions", json!(stats.transitions));
    rep.set("traces_validated_against_impl", json!(stats.executions));
    rep.set("evaluations", json!(stats.executions));
    rep.set("distinct_nontrivial", json!(outcomes));
    rep.set("schedules_explored", json!(stats.executions));
    rep.set("preemption_bound", json!("none (space exhausted)"));
    rep.set("max_preemptions_in_a_schedule", json!(max_preempt));
    rep.set("determinism_replays", json!(replays));
    rep.observe("schedules_where_snapshots_straddle_a_clear_or_round", json!(mixed));
    rep.set("rule", json!("real OS threads on one real Tracer: the tracer thread runs over the simulated network (R rounds, one write-lock section per round, + the error path), reader threads call snapshot(), one thread calls clear(); a scheduling point at every lock acquisition attempt and at thread start/end; ALL schedules enumerated without a preemption bound. Oracle: linearizability - some total order consistent with real-time order, replayed on a fresh real State (update_from_round / State::new / set_error), must yield every observed snapshot (all getters of all flows). distinct_nontrivial = distinct vectors of (reader, rounds seen, error seen)"));
    for s in samples.into_iter().take(3) {
        rep.sample(s);
    }
    rep.assumptions = vec!["only RwLock operations of tracer.rs are scheduling points; safe Rust rules out unsynchronised sharing elsewhere (DESIGN.md 2.5)".into(), crate::c01::ASSUME.into()];
    rep.finish()
}

pub fn replay(path: &str) -> i32 {
    let s = std::fs::read_to_string(path).expect("MACHINERY: cannot read replay file");
    let v: Value = serde_json::from_str(&s).expect("MACHINERY: replay JSON");
    let r = if v.get("replay").is_some() { &v["replay"] } else { &v };
    let c = &r["config"];
    let cfg = Cfg {
        rounds: c["rounds"].as_u64().unwrap() as usize,
        readers: c["readers"].as_array().unwrap().iter().map(|x| x.as_u64().unwrap() as usize).collect(),
        clears: c["clears"].as_u64().unwrap() as usize,
        fatal_at_select: c["fatal_at_select"].as_u64().map(|x| x as usize),
        script: c["script"].as_array().map(|a| a.iter().map(|x| x.as_u64().unwrap_or(0) as u8).collect()).unwrap_or_default(),
        max_flows: c["max_flows"].as_u64().map_or(4, |x| x as usize),
    };
    let schedule: Vec<u16> = r["schedule"].as_array().unwrap().iter().map(|c| c.as_u64().unwrap() as u16).collect();
    let o = run_once(&cfg, Chooser::new(&schedule, 100_000));
    println!("replay C20 config={} schedule={schedule:?}", cfg_json(&cfg));
    for e in &o.trace {
        println!("  step {} thread {} {}", e.step, e.tid, e.what);
    }
    for op in &o.ops {
        println!("  op thread {} [{}..{}] {:?}", op.tid, op.call, op.ret, op.kind);
    }
    let bad = judge(&o);
    for (k, d) in &bad {
        println!("DISCREPANCY {k}: {d}");
    }
    if bad.is_empty() {
        println!("replay: property held");
        0
    } else {
        println!("VIOLATION property=C20 replay={path}");
        1
    }
}
