//! E2: simulated network.  `SimSocket` implements the real `Socket` trait of trippy-core; its
//! constructors are static, so it reaches its *world* through a thread-local.
//!
//! The world contains a small kernel model (socket options -> datagram on the wire), a topology
//! (hops / target behaviours), a queue of responses in flight, the virtual clock and a
//! ground-truth log.  Every nondeterministic answer the real world could give is a choice point
//! of the explorer (`mc::Chooser`).

use crate::mc::Chooser;
use crate::vclock;
use crate::wire::{self, ExtLayout, ExtObj};
use std::cell::RefCell;
use std::net::{IpAddr, SocketAddr};
use std::time::Duration;
use trippy_core::verif::{IoError, IoOperation, IoResult, Socket, SocketError};
use trippy_core::{ProbeStatus, Round};

pub const MS: u64 = 1_000_000;

// errno values (Linux)
pub const EIO: i32 = 5;
pub const EAGAIN: i32 = 11;
pub const EACCES: i32 = 13;
pub const EINVAL: i32 = 22;
pub const EADDRINUSE: i32 = 98;
pub const EADDRNOTAVAIL: i32 = 99;
pub const ENETUNREACH: i32 = 101;
pub const ENOBUFS: i32 = 105;
pub const ECONNREFUSED: i32 = 111;
pub const EHOSTUNREACH: i32 = 113;
pub const EINPROGRESS: i32 = 115;

#[derive(Debug, Clone, Copy, PartialEq, Eq, Hash)]
pub enum Proto {
    Icmp,
    Udp,
    Tcp,
}

/// Where the probe's sequence number travels on the wire (harness's own table, from the
/// documented strategies; used by the independent decoder).
#[derive(Debug, Clone, Copy, PartialEq, Eq, Hash)]
pub enum SeqLoc {
    IcmpSeq,
    UdpDport,
    UdpSport,
    UdpCksum,
    IpId,
    /// Dublin/IPv6: UDP payload length - 6 (magic) + initial sequence.
    PayloadLen,
    TcpSport,
    TcpDport,
}

#[derive(Debug, Clone, PartialEq, Eq)]
pub enum HopKind {
    Reply,
    Silent,
    /// Answers the 1st, 3rd, 5th ... probe it sees (rate limiting).
    EveryOther,
    /// Answers every probe twice.
    Duplicate,
    /// Per-flow load balancing over these addresses.
    Ecmp(Vec<IpAddr>),
}

#[derive(Debug, Clone, Copy, PartialEq, Eq)]
pub enum Quote {
    /// IP header plus this many octets of the original datagram (v4 minimum: 8).
    HeaderPlus(usize),
    /// As much as fits (whole datagram for our sizes).
    Full,
}

#[derive(Debug, Clone, PartialEq, Eq)]
pub struct Hop {
    pub addr: IpAddr,
    pub kind: HopKind,
    pub quote: Quote,
    pub ext: Option<(Vec<ExtObj>, ExtLayout)>,
    /// The device rewrites source address/port of datagrams on arrival (NAT).
    pub nat: bool,
    /// ... and, instead of fixing the UDP checksum up, clears it (legal over IPv4: "no checksum").
    pub nat_zero: bool,
    /// TTL / hop limit value in the quoted header.
    pub quoted_ttl: u8,
    /// Rewrite the quoted TOS / traffic class to this value.
    pub rewrite_tos: Option<u8>,
    /// Zero the quoted IPv4 header checksum instead of recomputing it.
    pub zero_quoted_cksum: bool,
    /// Answer with Destination Unreachable (this code) instead of Time Exceeded.
    pub unreachable_code: Option<u8>,
    /// Number of option octets in the outer IPv4 header of the answer (multiple of 4).
    pub outer_options: usize,
    /// Alter one identity field of the quotation (C02 negative half): such an answer is *not* a
    /// genuine response to the probe.
    pub alter: Option<Alter>,
}

#[derive(Debug, Clone, Copy, PartialEq, Eq, Hash)]
pub enum Alter {
    DestAddr,
    /// The port(s) the configuration pins.
    FixedPort,
    /// Both ports pinned: only the second one (destination) differs.
    FixedPortDest,
    /// The per-round flow port of Paris/Dublin (not pinned by the configuration).
    FlowPort,
    /// Quoted IP protocol / next header.
    Protocol,
    /// Dublin/IPv6 magic prefix.
    Magic,
    /// ICMP identifier (to another non-zero value).
    IcmpId,
    /// ICMP identifier forced to zero (a sibling whose identifier is 0; udp/tcp quotations carry
    /// no identifier and are reported with 0 - an ICMP tracer must not take that for its own).
    IcmpIdZero,
    /// A foreign UDP datagram whose payload is only the first k (0..=5) octets of the Dublin/IPv6
    /// marker (e.g. another tool's empty-payload probe): consistent UDP / IP length fields.
    MagicShort(u8),
}

impl Hop {
    pub fn reply(addr: IpAddr) -> Self {
        Self {
            addr,
            kind: HopKind::Reply,
            quote: Quote::HeaderPlus(8),
            ext: None,
            nat: false,
            nat_zero: false,
            quoted_ttl: 1,
            rewrite_tos: None,
            zero_quoted_cksum: false,
            unreachable_code: None,
            outer_options: 0,
            alter: None,
        }
    }
    pub fn kind(mut self, k: HopKind) -> Self {
        self.kind = k;
        self
    }
    pub fn quote(mut self, q: Quote) -> Self {
        self.quote = q;
        self
    }
}

#[derive(Debug, Clone, Copy, PartialEq, Eq)]
pub enum Target {
    /// Echo Reply / port unreachable / SYN-ACK.
    Answers,
    /// TCP: RST (connection refused); others as `Answers`.
    Refuses,
    Silent,
    /// Silent for probes sent in rounds before this one, answers from then on.
    AnswersFromRound(usize),
}

#[derive(Debug, Clone, PartialEq, Eq)]
pub struct Topo {
    /// `hops[i]` handles probes with ttl == i+1; larger ttls reach the target.
    pub hops: Vec<Hop>,
    pub target: Target,
    pub target_quote: Quote,
}

#[derive(Debug, Clone, Default, PartialEq, Eq)]
pub struct Menu {
    pub delay: bool,
    pub reorder: bool,
    pub dup: bool,
    pub loss: bool,
    /// Junk injection (C03).
    pub junk: Vec<JunkKind>,
    /// Replace every injected junk datagram by one the receive path discards at once.
    pub inert_junk: bool,
    /// Also offer every junk datagram as arriving at the END of the wait (timeout minus 1 us of
    /// virtual time passes first) instead of at once.
    pub late_junk: bool,
    /// Socket faults (C09): errno values offered at send-side calls / receive-side calls.
    pub send_faults: Vec<i32>,
    pub bind_faults: Vec<i32>,
    pub connect_faults: Vec<i32>,
    pub recv_faults: Vec<i32>,
    pub select_faults: Vec<i32>,
    /// Faults of the per-probe TCP socket at receive time (take_error / peer_addr / shutdown).
    pub stream_faults: Vec<i32>,
    /// Offer the Windows-style answer (HostUnreachable + icmp_error_info) for expired TCP probes.
    pub tcp_host_unreachable: bool,
}

#[derive(Debug, Clone, Copy, PartialEq, Eq, Hash)]
pub enum JunkKind {
    /// A second copy of a response already delivered in the current round.
    Duplicate,
    /// Response to a probe of the previous round.
    Late,
    /// Same probe encoded for a tracer with another trace identifier (`delta` added, ICMP only).
    ForeignId(u16),
    /// Trace identifier forced to zero (ICMP only).
    ForeignIdZero,
    /// Echo Reply from another target carrying the sibling tracer's identifier (ICMP only).
    ForeignEchoReply(u16),
    /// Quotation with another destination address (UDP/TCP).
    ForeignTarget,
    /// As `ForeignTarget`, but the ICMP error is sent by this tracer's own target (the target is a
    /// router on the path to the sibling's target and reports the sibling's expired probe).
    ForeignTargetViaTarget,
    /// Quotation with another fixed port (UDP/TCP).
    ForeignPort,
    /// Both ports pinned: only the *second* pinned port (destination) differs.
    ForeignPortDest,
    /// Well-formed quotation naming the sequence `round_start + offset` which was never sent.
    NeverSent(i32),
    /// Well-formed quotation naming the next unissued sequence.
    NextUnissued,
    /// Well-formed quotation naming the sequence of a probe of the current round that never
    /// reached the wire (its send, bind or connect failed: the slot is Failed or Skipped).
    Unsent,
    /// A second answer, this time from the target's address (Echo Reply / port unreachable), to a
    /// probe of the current round that a router has already answered.
    SecondAnswerFromTarget,
    /// Unrelated ICMP traffic (an Echo Request from someone pinging this host): decodes to nothing.
    Inert,
}

#[derive(Debug, Clone, Default)]
pub struct ForgePlan {
    edits: Vec<(usize, u16)>,
    flip: Option<usize>,
    echo_reply: Option<u16>,
    from_target: bool,
    via_target: bool,
}

#[derive(Debug, Clone)]
pub enum JunkSrc {
    Resp(usize),
    Plan(ForgePlan),
}

#[derive(Debug, Clone)]
pub struct NetCfg {
    pub v6: bool,
    pub proto: Proto,
    pub src: IpAddr,
    pub dst: IpAddr,
    pub topo: Topo,
    pub seq_loc: SeqLoc,
    pub initial_sequence: u16,
    pub delta_ns: u64,
    pub menu: Menu,
    /// Fixed ports (for junk generation).
    pub fixed_sport: Option<u16>,
    pub fixed_dport: Option<u16>,
    /// A path change: every datagram sent in round >= .0 travels over topology .1.
    pub reroute: Option<(usize, Topo)>,
    /// Round-trip time of the target's TCP handshake answer (default: one delivery step).
    pub tcp_rtt_ns: Option<u64>,
    /// Virtual-time horizon: a run that is still waiting for input after this instant will never
    /// end (twice what its rounds can take); the wait fails with EIO and `runaway` is set.
    pub deadline_ns: Option<u64>,
}

#[derive(Debug, Clone, Copy, PartialEq, Eq)]
pub enum RespKind {
    TimeExceeded(u8),
    Unreachable(u8),
    EchoReply,
    TcpSynAck,
    TcpRst,
    /// Windows-style: host unreachable reported on the stream socket.
    TcpHostUnreach,
}

#[derive(Debug, Clone)]
pub struct SentRec {
    pub idx: usize,
    pub time_ns: u64,
    pub round: usize,
    pub ttl: u8,
    pub tos: u8,
    pub seq: Option<u16>,
    /// The full IP datagram as it left the host.
    pub wire: Vec<u8>,
    pub l4off: usize,
    pub sport: u16,
    pub dport: u16,
    pub raw_bytes_len: usize,
    /// Bytes passed to send_to (raw sockets), for C11.
    pub handed: Vec<u8>,
    pub sock: usize,
}

#[derive(Debug, Clone)]
pub struct RespRec {
    pub id: usize,
    pub for_sent: usize,
    pub from: IpAddr,
    pub kind: RespKind,
    /// What the receive socket hands over (v4: outer IP header + ICMP; v6: ICMPv6 only).
    pub bytes: Vec<u8>,
    pub genuine: bool,
    pub dup_done: bool,
    /// UDP checksum quoted (C19 ground truth).
    pub quoted_udp_cksum: Option<u16>,
    pub ext: Option<Vec<ExtObj>>,
}

#[derive(Debug, Clone)]
pub struct DeliveryRec {
    pub resp: usize,
    pub for_sent: usize,
    pub time_ns: u64,
    pub round: usize,
    pub genuine: bool,
    pub junk: Option<JunkKind>,
}

#[derive(Debug, Clone, PartialEq, Eq)]
pub enum AttemptOutcome {
    Pending,
    Sent(usize),
    Fault { errno: i32, op: &'static str },
}

#[derive(Debug, Clone)]
pub struct Attempt {
    pub round: usize,
    pub time_ns: u64,
    pub sock: usize,
    pub outcome: AttemptOutcome,
}

#[derive(Debug, Clone)]
pub struct PublishRec {
    pub time_ns: u64,
    pub probes: Vec<ProbeStatus>,
    pub largest_ttl: u8,
    pub target_found: bool,
}

#[derive(Debug, Clone, PartialEq, Eq)]
enum SockKind {
    IcmpSend,
    UdpSend,
    Recv,
    Stream,
    UdpDgram,
}

#[derive(Debug, Clone, PartialEq, Eq)]
enum Tcp {
    Idle,
    InFlight {
        ready_at: u64,
        kind: Option<RespKind>,
        sent: usize,
        from: IpAddr,
    },
    Done,
}

#[derive(Debug, Clone)]
struct Sock {
    kind: SockKind,
    v6: bool,
    raw: bool,
    bound: Option<SocketAddr>,
    ttl: u32,
    tos: u32,
    hops6: u8,
    hdrincl: bool,
    connected: Option<SocketAddr>,
    tcp: Tcp,
    attempt: Option<usize>,
}

pub struct World {
    pub cfg: NetCfg,
    pub chooser: Chooser,
    socks: Vec<Sock>,
    pub sent: Vec<SentRec>,
    pub resps: Vec<RespRec>,
    pending: Vec<usize>,
    /// The datagram selected by `is_readable`, with the delivery record that is logged once the
    /// tracer actually reads it.
    ready: Option<(Vec<u8>, Option<SocketAddr>, Option<DeliveryRec>)>,
    pub deliveries: Vec<DeliveryRec>,
    pub attempts: Vec<Attempt>,
    pub publishes: Vec<PublishRec>,
    pub round: usize,
    hop_seen: Vec<u32>,
    pub faults_injected: Vec<(usize, &'static str, i32)>,
    pub op_count: usize,
    /// the run was cut off at its virtual-time horizon
    pub runaway: bool,
    /// Per-class counters for non-vacuity evidence.
    pub n_delay: u32,
    pub n_reorder: u32,
    pub n_dup: u32,
    pub n_loss: u32,
    pub n_junk: u32,
    /// Scripted datagrams (C04/C14): when non-empty, `is_readable` hands these over in order
    /// without consulting the explorer.
    pub inject: std::collections::VecDeque<(Vec<u8>, Option<SocketAddr>)>,
}

thread_local! {
    static WORLD: RefCell<Option<World>> = const { RefCell::new(None) };
}

pub fn install(cfg: NetCfg, chooser: Chooser) {
    let hops = cfg.topo.hops.len();
    vclock::set(Some(1_000 * MS));
    WORLD.with(|w| {
        *w.borrow_mut() = Some(World {
            cfg,
            chooser,
            socks: vec![],
            sent: vec![],
            resps: vec![],
            pending: vec![],
            ready: None,
            deliveries: vec![],
            attempts: vec![],
            publishes: vec![],
            round: 0,
            hop_seen: vec![0; hops + 1],
            faults_injected: vec![],
            op_count: 0,
            runaway: false,
            n_delay: 0,
            n_reorder: 0,
            n_dup: 0,
            n_loss: 0,
            n_junk: 0,
            inject: std::collections::VecDeque::new(),
        });
    });
}

pub fn take() -> World {
    vclock::set(None);
    WORLD.with(|w| w.borrow_mut().take().expect("MACHINERY: no world installed"))
}

pub fn with<R>(f: impl FnOnce(&mut World) -> R) -> R {
    WORLD.with(|w| {
        let mut b = w.borrow_mut();
        f(b.as_mut().expect("MACHINERY: SimSocket used without a world"))
    })
}

/// Called by the harness from the publish callback.
pub fn on_publish(round: &Round<'_>) {
    with(|w| {
        w.publishes.push(PublishRec {
            time_ns: vclock::get(),
            probes: round.probes.to_vec(),
            largest_ttl: round.largest_ttl.0,
            target_found: round.reason == trippy_core::CompletionReason::TargetFound,
        });
        w.round += 1;
    });
}

fn io_err(errno: i32) -> std::io::Error {
    std::io::Error::from_raw_os_error(errno)
}

impl World {
    fn new_sock(&mut self, kind: SockKind, v6: bool, raw: bool, hdrincl: bool) -> SimSocket {
        self.socks.push(Sock {
            kind,
            v6,
            raw,
            bound: None,
            ttl: 64,
            tos: 0,
            hops6: 64,
            hdrincl,
            connected: None,
            tcp: Tcp::Idle,
            attempt: None,
        });
        SimSocket {
            id: self.socks.len() - 1,
        }
    }

    fn start_attempt(&mut self, sock: usize) {
        self.attempts.push(Attempt {
            round: self.round,
            time_ns: vclock::get(),
            sock,
            outcome: AttemptOutcome::Pending,
        });
        self.socks[sock].attempt = Some(self.attempts.len() - 1);
    }

    fn resolve_attempt(&mut self, sock: usize, outcome: AttemptOutcome) {
        if let Some(a) = self.socks[sock].attempt {
            if self.attempts[a].outcome == AttemptOutcome::Pending {
                self.attempts[a].outcome = outcome;
            }
        }
    }

    /// TCP handshake answers that reached this host and were never looked at: (index of the SYN in
    /// `sent`, time the answer was ready).  A socket the tracer polled and consumed is `Done`.
    pub fn unpolled_tcp_answers(&self) -> Vec<(usize, u64)> {
        self.socks
            .iter()
            .filter_map(|s| match &s.tcp {
                Tcp::InFlight { ready_at, kind: Some(RespKind::TcpSynAck | RespKind::TcpRst), sent, .. } => Some((*sent, *ready_at)),
                _ => None,
            })
            .collect()
    }

    /// A fault choice point: returns Some(errno) if the explorer picked a fault here.
    fn fault(&mut self, sock: usize, op: &'static str, menu: &[i32]) -> Option<i32> {
        self.op_count += 1;
        if menu.is_empty() {
            return None;
        }
        let c = self.chooser.choose(1 + menu.len());
        if c == 0 {
            None
        } else {
            let errno = menu[c - 1];
            // a system call that fails has taken time too (a connect that ends in EADDRINUSE, a
            // send that the stack refuses): one delivery step of virtual time
            vclock::advance(self.cfg.delta_ns);
            self.faults_injected.push((self.op_count, op, errno));
            self.resolve_attempt(sock, AttemptOutcome::Fault { errno, op });
            Some(errno)
        }
    }

    /// Recover the sequence number from a datagram we sent (independent decoder).
    fn decode_seq(&self, wire: &[u8], l4off: usize) -> Option<u16> {
        let l4 = &wire[l4off..];
        let be = |i: usize| -> Option<u16> {
            if l4.len() >= i + 2 {
                Some(u16::from_be_bytes([l4[i], l4[i + 1]]))
            } else {
                None
            }
        };
        match self.cfg.seq_loc {
            SeqLoc::IcmpSeq => be(6),
            SeqLoc::UdpDport | SeqLoc::TcpDport => be(2),
            SeqLoc::UdpSport | SeqLoc::TcpSport => be(0),
            SeqLoc::UdpCksum => be(6),
            SeqLoc::IpId => Some(u16::from_be_bytes([wire[4], wire[5]])),
            SeqLoc::PayloadLen => be(4).map(|len| {
                self.cfg
                    .initial_sequence
                    .wrapping_add(len.wrapping_sub(8).wrapping_sub(6))
            }),
        }
    }

    /// Put a datagram on the wire: log it and let the topology answer.
    fn transmit(&mut self, sock: usize, wire: Vec<u8>, l4off: usize, ttl: u8, tos: u8, handed: &[u8]) -> usize {
        let l4 = &wire[l4off..];
        let (sport, dport) = if self.cfg.proto == Proto::Icmp || l4.len() < 4 {
            (0, 0)
        } else {
            (
                u16::from_be_bytes([l4[0], l4[1]]),
                u16::from_be_bytes([l4[2], l4[3]]),
            )
        };
        let idx = self.sent.len();
        let seq = self.decode_seq(&wire, l4off);
        self.sent.push(SentRec {
            idx,
            time_ns: vclock::get(),
            round: self.round,
            ttl,
            tos,
            seq,
            wire,
            l4off,
            sport,
            dport,
            raw_bytes_len: handed.len(),
            handed: handed.to_vec(),
            sock,
        });
        if self.socks[sock].attempt.is_none() {
            self.attempts.push(Attempt {
                round: self.round,
                time_ns: vclock::get(),
                sock,
                outcome: AttemptOutcome::Sent(idx),
            });
        } else {
            self.resolve_attempt(sock, AttemptOutcome::Sent(idx));
        }
        self.route(idx, sock);
        idx
    }

    /// The quoted original datagram as hop `h` (0-based) would embed it.
    pub fn quoted(&self, sent: &SentRec, upto_hop: usize, hop: Option<&Hop>, quote: Quote) -> (Vec<u8>, Option<u16>) {
        let mut q = sent.wire.clone();
        let l4off = sent.l4off;
        // NAT devices at or before this hop rewrote the source; on the way back the addresses are
        // restored but the transport checksum keeps the adjustment (RFC 3022 / RFC 1624).
        let mut udp_ck = None;
        if self.cfg.proto == Proto::Udp && q.len() >= l4off + 8 {
            let mut ck = u16::from_be_bytes([q[l4off + 6], q[l4off + 7]]);
            // RFC 1624 incremental update: HC' = ~(~HC + ~m + m')
            let adj = |ck: u16, m: u16, m2: u16| -> u16 {
                let mut acc = u64::from(!ck) + u64::from(!m) + u64::from(m2);
                while acc >> 16 != 0 {
                    acc = (acc & 0xffff) + (acc >> 16);
                }
                !(acc as u16)
            };
            // an address-rewriting device: the last 16-bit word of the SOURCE ADDRESS is rewritten
            // in the datagram itself (so every router beyond quotes the rewritten address) and the
            // UDP checksum is fixed up accordingly; the ports are preserved (a device that rewrote
            // them would make the quotation unrecognisable to the tracer)
            let a_off = if self.cfg.v6 { 22 } else { 14 };
            let mut cur_a = u16::from_be_bytes([q[a_off], q[a_off + 1]]);
            let mut cleared = false;
            for (i, h) in self.cfg.topo.hops.iter().enumerate() {
                if i <= upto_hop && h.nat {
                    let new_a = 0xc0a8u16.wrapping_add(i as u16 * 3);
                    cleared |= h.nat_zero && !self.cfg.v6;
                    // a cleared checksum stays cleared: there is nothing to update incrementally
                    ck = if cleared { 0 } else { adj(ck, cur_a, new_a) };
                    cur_a = new_a;
                }
            }
            q[a_off..a_off + 2].copy_from_slice(&cur_a.to_be_bytes());
            q[l4off + 6..l4off + 8].copy_from_slice(&ck.to_be_bytes());
            udp_ck = Some(ck);
        }
        if let Some(alter) = hop.and_then(|h| h.alter) {
            let v6 = self.cfg.v6;
            let flip16 = |q: &mut Vec<u8>, off: usize| {
                if q.len() >= off + 2 {
                    q[off] ^= 0x01;
                }
            };
            match alter {
                Alter::DestAddr => q[if v6 { 39 } else { 19 }] ^= 0x01,
                Alter::FixedPort => {
                    if self.cfg.fixed_sport.is_some() {
                        flip16(&mut q, l4off);
                    } else {
                        flip16(&mut q, l4off + 2);
                    }
                }
                Alter::FixedPortDest => flip16(&mut q, l4off + 2),
                Alter::FlowPort => {
                    if self.cfg.fixed_sport.is_some() {
                        flip16(&mut q, l4off + 2);
                    } else {
                        flip16(&mut q, l4off);
                    }
                }
                Alter::Protocol => {
                    let off = if v6 { 6 } else { 9 };
                    q[off] = if q[off] == wire::PROTO_UDP { wire::PROTO_TCP } else { wire::PROTO_UDP };
                }
                Alter::Magic => {
                    // one octet of the 6-octet marker, chosen by the probe's ttl
                    let k = usize::from(sent.ttl) % 6;
                    if q.len() > l4off + 8 + k {
                        q[l4off + 8 + k] ^= 0x20;
                    }
                }
                Alter::MagicShort(k) => {
                    let k = usize::from(k.min(5));
                    if q.len() >= l4off + 8 {
                        q.truncate(l4off + 8 + k);
                        let ulen = (8 + k) as u16;
                        q[l4off + 4..l4off + 6].copy_from_slice(&ulen.to_be_bytes());
                        if v6 {
                            q[4..6].copy_from_slice(&ulen.to_be_bytes());
                        } else {
                            let tot = (l4off + 8 + k) as u16;
                            q[2..4].copy_from_slice(&tot.to_be_bytes());
                        }
                    }
                }
                Alter::IcmpIdZero => {
                    if q.len() >= l4off + 6 {
                        q[l4off + 4..l4off + 6].copy_from_slice(&[0, 0]);
                    }
                }
                Alter::IcmpId => {
                    if q.len() >= l4off + 6 {
                        let id = u16::from_be_bytes([q[l4off + 4], q[l4off + 5]]);
                        let mut n = id ^ 0x0100;
                        if n == 0 {
                            n = 0x0101;
                        }
                        q[l4off + 4..l4off + 6].copy_from_slice(&n.to_be_bytes());
                    }
                }
            }
        }
        let (qttl, rtos, zero) = hop.map_or((1, None, false), |h| (h.quoted_ttl, h.rewrite_tos, h.zero_quoted_cksum));
        if self.cfg.v6 {
            q[7] = qttl;
            if let Some(t) = rtos {
                q[0] = 0x60 | (t >> 4);
                q[1] = (t << 4) | (q[1] & 0x0f);
            }
        } else {
            q[8] = qttl;
            if let Some(t) = rtos {
                q[1] = t;
            }
            if zero {
                q[10] = 0;
                q[11] = 0;
            } else {
                wire::fix_ip4_cksum(&mut q);
            }
        }
        let keep = match quote {
            Quote::HeaderPlus(n) => (l4off + n).min(q.len()),
            Quote::Full => q.len().min(if self.cfg.v6 { 1232 } else { 548 }),
        };
        q.truncate(keep);
        (q, udp_ck)
    }

    /// Build the datagram the receive socket hands over for an ICMP message from `from`.
    pub fn wrap_icmp(&self, from: IpAddr, icmp: Vec<u8>, outer_options: usize) -> Vec<u8> {
        match (from, self.cfg.src) {
            (IpAddr::V4(f), IpAddr::V4(s)) => {
                let opts = vec![1u8; outer_options]; // NOP options
                wire::build_ip4(0, 0x1234, 0, 60, wire::PROTO_ICMP, f, s, &opts, &icmp)
            }
            _ => icmp,
        }
    }

    pub fn icmp_error(&self, from: IpAddr, te: bool, code: u8, quoted: &[u8], ext: Option<&(Vec<ExtObj>, ExtLayout)>) -> Vec<u8> {
        let v6 = self.cfg.v6;
        let typ = match (v6, te) {
            (false, true) => wire::ICMP4_TIME_EXCEEDED,
            (false, false) => wire::ICMP4_UNREACH,
            (true, true) => wire::ICMP6_TIME_EXCEEDED,
            (true, false) => wire::ICMP6_UNREACH,
        };
        let (len_field, body) = match ext {
            Some((objs, layout)) => {
                let e = wire::build_ext_structure(objs);
                wire::rfc4884_body(v6, quoted, &e, *layout)
            }
            None => (0, quoted.to_vec()),
        };
        let pseudo = if v6 { Some((from, self.cfg.src)) } else { None };
        wire::build_icmp_error(v6, typ, code, len_field, &body, pseudo)
    }

    fn push_resp(&mut self, for_sent: usize, from: IpAddr, kind: RespKind, bytes: Vec<u8>, genuine: bool, udp_ck: Option<u16>, ext: Option<Vec<ExtObj>>) -> usize {
        let id = self.resps.len();
        self.resps.push(RespRec {
            id,
            for_sent,
            from,
            kind,
            bytes,
            genuine,
            dup_done: false,
            quoted_udp_cksum: udp_ck,
            ext,
        });
        id
    }

    /// Topology: decide who answers datagram `idx`.
    fn route(&mut self, idx: usize, sock: usize) {
        if self.cfg.reroute.as_ref().is_some_and(|(k, _)| self.round >= *k) {
            let (_, alt) = self.cfg.reroute.take().expect("checked");
            self.hop_seen = vec![0; alt.hops.len() + 1];
            self.cfg.topo = alt;
        }
        let sent = self.sent[idx].clone();
        let nhops = self.cfg.topo.hops.len();
        let ttl = usize::from(sent.ttl);
        if ttl == 0 {
            return;
        }
        if ttl <= nhops {
            let h = ttl - 1;
            let hop = self.cfg.topo.hops[h].clone();
            self.hop_seen[h] += 1;
            let n = match &hop.kind {
                HopKind::Silent => 0,
                HopKind::Reply | HopKind::Ecmp(_) => 1,
                HopKind::EveryOther => self.hop_seen[h] % 2,
                HopKind::Duplicate => 2,
            };
            let from = match &hop.kind {
                HopKind::Ecmp(addrs) => {
                    let l4 = &sent.wire[sent.l4off..];
                    let hsh = if self.cfg.proto == Proto::Icmp {
                        usize::from(l4[2]) + usize::from(l4[3])
                    } else {
                        usize::from(l4[0]) + usize::from(l4[1]) + usize::from(l4[2]) + usize::from(l4[3])
                    };
                    addrs[hsh % addrs.len()]
                }
                _ => hop.addr,
            };
            for _ in 0..n {
                let (q, ck) = self.quoted(&sent, h, Some(&hop), hop.quote);
                let (te, code) = match hop.unreachable_code {
                    Some(c) => (false, c),
                    None => (true, 0),
                };
                let icmp = self.icmp_error(from, te, code, &q, hop.ext.as_ref());
                let bytes = self.wrap_icmp(from, icmp, hop.outer_options);
                let kind = if te {
                    RespKind::TimeExceeded(code)
                } else {
                    RespKind::Unreachable(code)
                };
                let id = self.push_resp(idx, from, kind, bytes, hop.alter.is_none(), ck, hop.ext.as_ref().map(|e| e.0.clone()));
                self.pending.push(id);
            }
            if self.cfg.proto == Proto::Tcp {
                self.socks[sock].tcp = Tcp::InFlight {
                    ready_at: vclock::get() + self.cfg.delta_ns,
                    kind: None,
                    sent: idx,
                    from,
                };
            }
        } else {
            let dst = self.cfg.dst;
            let target = match self.cfg.topo.target {
                Target::AnswersFromRound(r) if self.round >= r => Target::Answers,
                Target::AnswersFromRound(_) => Target::Silent,
                t => t,
            };
            match (target, self.cfg.proto) {
                (Target::Silent, Proto::Tcp) => {
                    self.socks[sock].tcp = Tcp::InFlight {
                        ready_at: u64::MAX,
                        kind: None,
                        sent: idx,
                        from: dst,
                    };
                }
                (Target::Silent, _) => {}
                (_, Proto::Icmp) => {
                    let l4 = &sent.wire[sent.l4off..];
                    let echo = wire::parse_echo(l4).expect("MACHINERY: sent ICMP not an echo");
                    let (typ, pseudo) = if self.cfg.v6 {
                        (wire::ICMP6_ECHO_REPLY, Some((dst, self.cfg.src)))
                    } else {
                        (wire::ICMP4_ECHO_REPLY, None)
                    };
                    let icmp = wire::build_echo(typ, echo.id, echo.seq, &echo.payload, pseudo);
                    let bytes = self.wrap_icmp(dst, icmp, 0);
                    let id = self.push_resp(idx, dst, RespKind::EchoReply, bytes, true, None, None);
                    self.pending.push(id);
                }
                (_, Proto::Udp) => {
                    let code = if self.cfg.v6 { 4 } else { 3 };
                    let (q, ck) = self.quoted(&sent, nhops, None, self.cfg.topo.target_quote);
                    let icmp = self.icmp_error(dst, false, code, &q, None);
                    let bytes = self.wrap_icmp(dst, icmp, 0);
                    let id = self.push_resp(idx, dst, RespKind::Unreachable(code), bytes, true, ck, None);
                    self.pending.push(id);
                }
                (t, Proto::Tcp) => {
                    let kind = if t == Target::Refuses {
                        RespKind::TcpRst
                    } else {
                        RespKind::TcpSynAck
                    };
                    self.socks[sock].tcp = Tcp::InFlight {
                        ready_at: vclock::get() + self.cfg.tcp_rtt_ns.unwrap_or(self.cfg.delta_ns),
                        kind: Some(kind),
                        sent: idx,
                        from: dst,
                    };
                }
            }
        }
    }

    fn deliver(&mut self, resp: usize, junk: Option<JunkKind>) {
        let r = &self.resps[resp];
        let peer = if self.cfg.v6 {
            Some(SocketAddr::new(r.from, 0))
        } else {
            None
        };
        self.ready = Some((
            r.bytes.clone(),
            peer,
            Some(DeliveryRec {
                resp,
                for_sent: r.for_sent,
                time_ns: vclock::get(),
                round: self.round,
                genuine: r.genuine && junk.is_none(),
                junk,
            }),
        ));
    }

    /// An inert datagram: an ICMP Echo *Request*, which the receive path drops at the lowest level.
    fn inert_bytes(&self) -> Vec<u8> {
        let from = self.cfg.dst;
        let (typ, pseudo) = if self.cfg.v6 {
            (wire::ICMP6_ECHO_REQUEST, Some((from, self.cfg.src)))
        } else {
            (wire::ICMP4_ECHO_REQUEST, None)
        };
        let icmp = wire::build_echo(typ, 0x7777, 0x7777, &[0u8; 8], pseudo);
        self.wrap_icmp(from, icmp, 0)
    }

    /// Candidate junk datagrams at this instant, in a deterministic order.  Only the *plan* is
    /// computed here (cheap); the bytes are built when a candidate is chosen.
    fn junk_candidates(&self) -> Vec<(JunkKind, usize, JunkSrc)> {
        let mut out = vec![];
        let cur: Vec<&SentRec> = self.sent.iter().filter(|s| s.round == self.round).collect();
        let mut base_cache: Option<Option<usize>> = None;
        for k in &self.cfg.menu.junk {
            match *k {
                JunkKind::Duplicate => {
                    if let Some(d) = self
                        .deliveries
                        .iter()
                        .rev()
                        .find(|d| d.round == self.round && d.genuine && !self.resps[d.resp].bytes.is_empty())
                    {
                        out.push((*k, self.resps[d.resp].for_sent, JunkSrc::Resp(d.resp)));
                    }
                }
                JunkKind::Inert => {
                    if let Some(last) = self.sent.last() {
                        out.push((*k, last.idx, JunkSrc::Plan(ForgePlan::default())));
                    }
                }
                JunkKind::SecondAnswerFromTarget => {
                    if self.cfg.proto != Proto::Tcp {
                        if let Some(d) = self
                            .deliveries
                            .iter()
                            .rev()
                            .find(|d| d.round == self.round && d.genuine && d.junk.is_none() && self.sent[d.for_sent].round == self.round && self.resps[d.resp].from != self.cfg.dst)
                        {
                            out.push((*k, d.for_sent, JunkSrc::Plan(ForgePlan { from_target: true, ..ForgePlan::default() })));
                        }
                    }
                }
                JunkKind::Late => {
                    if self.round > 0 {
                        // a response generated for a probe of the previous round (delivered or not)
                        if let Some(r) = self
                            .resps
                            .iter()
                            .rev()
                            .find(|r| r.genuine && !r.bytes.is_empty() && self.sent[r.for_sent].round + 1 == self.round)
                        {
                            out.push((*k, r.for_sent, JunkSrc::Resp(r.id)));
                        }
                    }
                }
                _ => {
                    // derived from the most recent probe of this round that is still unanswered,
                    // else the most recent probe of this round
                    let base = *base_cache.get_or_insert_with(|| {
                        cur.iter()
                            .rev()
                            .find(|s| !self.deliveries.iter().any(|d| d.genuine && d.for_sent == s.idx))
                            .or(cur.last())
                            .map(|s| s.idx)
                    });
                    if let Some(base) = base {
                        if let Some(plan) = self.forge_plan(&self.sent[base], *k, &cur) {
                            out.push((*k, base, JunkSrc::Plan(plan)));
                        }
                    }
                }
            }
        }
        out
    }

    /// Decide whether (and how) a response derived from `base` with one identity field altered
    /// can be forged: a list of 16-bit edits / one bit flip on the quoted datagram.
    fn forge_plan(&self, base: &SentRec, kind: JunkKind, cur: &[&SentRec]) -> Option<ForgePlan> {
        let l4 = base.l4off;
        let v6 = self.cfg.v6;
        let w = &base.wire;
        let get16 = |off: usize| u16::from_be_bytes([w[off], w[off + 1]]);
        let mut plan = ForgePlan::default();
        match kind {
            JunkKind::ForeignId(delta) => {
                if self.cfg.proto != Proto::Icmp || delta == 0 {
                    return None;
                }
                plan.edits.push((l4 + 4, get16(l4 + 4).wrapping_add(delta)));
            }
            JunkKind::ForeignEchoReply(delta) => {
                if self.cfg.proto != Proto::Icmp || delta == 0 {
                    return None;
                }
                plan.echo_reply = Some(delta);
            }
            JunkKind::ForeignIdZero => {
                if self.cfg.proto != Proto::Icmp || get16(l4 + 4) == 0 {
                    return None;
                }
                plan.edits.push((l4 + 4, 0));
            }
            JunkKind::ForeignTarget | JunkKind::ForeignTargetViaTarget => {
                if self.cfg.proto == Proto::Icmp {
                    return None;
                }
                plan.flip = Some(if v6 { 39 } else { 19 });
                plan.via_target = kind == JunkKind::ForeignTargetViaTarget;
            }
            JunkKind::ForeignPort => {
                if self.cfg.proto == Proto::Icmp {
                    return None;
                }
                if self.cfg.fixed_sport.is_some() {
                    plan.edits.push((l4, get16(l4) ^ 0x0100));
                } else if self.cfg.fixed_dport.is_some() {
                    plan.edits.push((l4 + 2, get16(l4 + 2) ^ 0x0100));
                } else {
                    return None;
                }
            }
            JunkKind::ForeignPortDest => {
                if self.cfg.proto == Proto::Icmp || self.cfg.fixed_sport.is_none() || self.cfg.fixed_dport.is_none() {
                    return None;
                }
                plan.edits.push((l4 + 2, get16(l4 + 2) ^ 0x0100));
            }
            JunkKind::NeverSent(_) | JunkKind::NextUnissued => {
                let first = cur.first()?;
                let last = cur.last()?;
                let round_start = i64::from(first.seq?);
                let target = match kind {
                    JunkKind::NeverSent(off) => round_start + i64::from(off),
                    _ => i64::from(last.seq?) + 1,
                };
                if !(0..=65535).contains(&target) {
                    return None;
                }
                let target = target as u16;
                // sequences of a round are consecutive: membership is a range test
                if target >= first.seq? && target <= last.seq? {
                    return None;
                }
                match self.cfg.seq_loc {
                    SeqLoc::IcmpSeq => plan.edits.push((l4 + 6, target)),
                    SeqLoc::UdpDport | SeqLoc::TcpDport => plan.edits.push((l4 + 2, target)),
                    SeqLoc::UdpSport | SeqLoc::TcpSport => plan.edits.push((l4, target)),
                    SeqLoc::UdpCksum => plan.edits.push((l4 + 6, target)),
                    SeqLoc::IpId => plan.edits.push((4, target)),
                    SeqLoc::PayloadLen => {
                        let len = i64::from(target) - i64::from(self.cfg.initial_sequence) + 14;
                        if !(14..=65535).contains(&len) {
                            return None;
                        }
                        plan.edits.push((l4 + 4, len as u16));
                    }
                }
            }
            JunkKind::Unsent => {
                // attempts of a round take consecutive sequence numbers: the one at position i
                // has the sequence of a transmitted one at position j, plus i - j
                let att: Vec<&Attempt> = self.attempts.iter().filter(|a| a.round == self.round).collect();
                let (j, sj) = att.iter().enumerate().find_map(|(j, a)| match a.outcome {
                    AttemptOutcome::Sent(idx) => self.sent[idx].seq.map(|s| (j, s)),
                    _ => None,
                })?;
                let i = att.iter().rposition(|a| matches!(a.outcome, AttemptOutcome::Fault { .. }))?;
                let target = i64::from(sj) + i as i64 - j as i64;
                if !(0..=65535).contains(&target) || cur.iter().any(|s| s.seq == Some(target as u16)) {
                    return None;
                }
                let target = target as u16;
                match self.cfg.seq_loc {
                    SeqLoc::IcmpSeq => plan.edits.push((l4 + 6, target)),
                    SeqLoc::UdpDport | SeqLoc::TcpDport => plan.edits.push((l4 + 2, target)),
                    SeqLoc::UdpSport | SeqLoc::TcpSport => plan.edits.push((l4, target)),
                    SeqLoc::UdpCksum => plan.edits.push((l4 + 6, target)),
                    SeqLoc::IpId => plan.edits.push((4, target)),
                    SeqLoc::PayloadLen => {
                        let len = i64::from(target) - i64::from(self.cfg.initial_sequence) + 14;
                        if !(14..=65535).contains(&len) {
                            return None;
                        }
                        plan.edits.push((l4 + 4, len as u16));
                    }
                }
            }
            JunkKind::Duplicate | JunkKind::Late | JunkKind::Inert | JunkKind::SecondAnswerFromTarget => return None,
        }
        Some(plan)
    }

    fn forge_build(&self, base: &SentRec, plan: &ForgePlan) -> (Vec<u8>, IpAddr) {
        let v6 = self.cfg.v6;
        let l4 = base.l4off;
        if plan.from_target {
            // what the target itself would send in answer to `base`
            let dst = self.cfg.dst;
            if self.cfg.proto == Proto::Icmp {
                let echo = wire::parse_echo(&base.wire[l4..]).expect("MACHINERY: echo");
                let (typ, pseudo) = if v6 { (wire::ICMP6_ECHO_REPLY, Some((dst, self.cfg.src))) } else { (wire::ICMP4_ECHO_REPLY, None) };
                let icmp = wire::build_echo(typ, echo.id, echo.seq, &echo.payload, pseudo);
                return (self.wrap_icmp(dst, icmp, 0), dst);
            }
            let code = if v6 { 4 } else { 3 };
            let (q, _) = self.quoted(base, self.cfg.topo.hops.len(), None, Quote::Full);
            let icmp = self.icmp_error(dst, false, code, &q, None);
            return (self.wrap_icmp(dst, icmp, 0), dst);
        }
        if let Some(delta) = plan.echo_reply {
            let echo = wire::parse_echo(&base.wire[l4..]).expect("MACHINERY: echo");
            // the sibling's own target answers the sibling's probe
            let other = match self.cfg.dst {
                IpAddr::V4(a) => IpAddr::V4(std::net::Ipv4Addr::from(u32::from(a) ^ 0x0000_0100)),
                IpAddr::V6(a) => IpAddr::V6(std::net::Ipv6Addr::from(u128::from(a) ^ 0x0100)),
            };
            let (typ, pseudo) = if v6 {
                (wire::ICMP6_ECHO_REPLY, Some((other, self.cfg.src)))
            } else {
                (wire::ICMP4_ECHO_REPLY, None)
            };
            let icmp = wire::build_echo(typ, echo.id.wrapping_add(delta), echo.seq, &echo.payload, pseudo);
            return (self.wrap_icmp(other, icmp, 0), other);
        }
        let mut s = base.clone();
        for &(off, v) in &plan.edits {
            if s.wire.len() >= off + 2 {
                s.wire[off..off + 2].copy_from_slice(&v.to_be_bytes());
            }
        }
        if let Some(off) = plan.flip {
            s.wire[off] ^= 0x01;
        }
        // answered by the first hop (Time Exceeded), quoting in full so every field is visible
        let from = if plan.via_target { self.cfg.dst } else { self.cfg.topo.hops.first().map_or(self.cfg.dst, |h| h.addr) };
        let (q, _) = self.quoted(&s, 0, None, Quote::Full);
        let icmp = self.icmp_error(from, true, 0, &q, None);
        (self.wrap_icmp(from, icmp, 0), from)
    }

    fn is_readable(&mut self, timeout: Duration) -> bool {
        self.op_count += 1;
        if let Some((b, p)) = self.inject.pop_front() {
            self.ready = Some((b, p, None));
            return true;
        }
        let p = self.pending.len();
        let m = &self.cfg.menu;
        // enumerate alternatives
        #[derive(Clone)]
        enum Alt {
            Deliver(usize),
            Timeout,
            Dup,
            Loss,
            Junk(usize),
            JunkLate(usize),
        }
        let mut alts: Vec<Alt> = vec![];
        if p > 0 {
            alts.push(Alt::Deliver(0));
            if m.delay {
                alts.push(Alt::Timeout);
            }
            if m.reorder {
                for j in 1..p {
                    alts.push(Alt::Deliver(j));
                }
            }
            if m.dup && !self.resps[self.pending[0]].dup_done {
                alts.push(Alt::Dup);
            }
            if m.loss {
                alts.push(Alt::Loss);
            }
        } else {
            alts.push(Alt::Timeout);
        }
        let junk = if m.junk.is_empty() {
            vec![]
        } else {
            self.junk_candidates()
        };
        for j in 0..junk.len() {
            alts.push(Alt::Junk(j));
        }
        if m.late_junk {
            for j in 0..junk.len() {
                alts.push(Alt::JunkLate(j));
            }
        }
        let c = self.chooser.choose(alts.len());
        match alts[c].clone() {
            Alt::Deliver(j) => {
                if j > 0 {
                    self.n_reorder += 1;
                }
                let id = self.pending.remove(j);
                vclock::advance(self.cfg.delta_ns);
                self.deliver(id, None);
                true
            }
            Alt::Timeout => {
                if p > 0 {
                    self.n_delay += 1;
                }
                // a poll that finds nothing still costs a little time (otherwise a zero read
                // timeout would freeze the virtual clock and the loop would never make progress)
                vclock::advance((timeout.as_nanos() as u64).max(100));
                false
            }
            Alt::Dup => {
                self.n_dup += 1;
                let id = self.pending[0];
                self.resps[id].dup_done = true;
                // the copy that stays queued is no longer "the first"
                let mut copy = self.resps[id].clone();
                copy.id = self.resps.len();
                copy.dup_done = true;
                let cid = copy.id;
                self.resps.push(copy);
                self.pending[0] = cid;
                vclock::advance(self.cfg.delta_ns);
                self.deliver(id, None);
                true
            }
            Alt::Loss => {
                self.n_loss += 1;
                self.pending.remove(0);
                if self.pending.is_empty() {
                    vclock::advance(timeout.as_nanos() as u64);
                    false
                } else {
                    let id = self.pending.remove(0);
                    vclock::advance(self.cfg.delta_ns);
                    self.deliver(id, None);
                    true
                }
            }
            Alt::Junk(j) | Alt::JunkLate(j) => {
                if matches!(alts[c], Alt::JunkLate(_)) {
                    vclock::advance((timeout.as_nanos() as u64).saturating_sub(1_000));
                }
                self.n_junk += 1;
                let (kind, for_sent, src) = junk[j].clone();
                let (bytes, from) = match &src {
                    JunkSrc::Resp(r) => (self.resps[*r].bytes.clone(), self.resps[*r].from),
                    JunkSrc::Plan(p) => self.forge_build(&self.sent[for_sent], p),
                };
                let bytes = if self.cfg.menu.inert_junk || kind == JunkKind::Inert {
                    self.inert_bytes()
                } else {
                    bytes
                };
                let from = if self.cfg.menu.inert_junk || kind == JunkKind::Inert { self.cfg.dst } else { from };
                let id = self.push_resp(for_sent, from, RespKind::TimeExceeded(0), bytes, false, None, None);
                vclock::advance(self.cfg.delta_ns);
                self.deliver(id, Some(kind));
                true
            }
        }
    }
}

/// The simulated socket handed to `Channel<S>`.
#[derive(Debug)]
pub struct SimSocket {
    id: usize,
}

impl Socket for SimSocket {
    fn new_icmp_send_socket_ipv4(raw: bool) -> IoResult<Self> {
        Ok(with(|w| w.new_sock(SockKind::IcmpSend, false, raw, true)))
    }
    fn new_icmp_send_socket_ipv6(raw: bool) -> IoResult<Self> {
        Ok(with(|w| w.new_sock(SockKind::IcmpSend, true, raw, false)))
    }
    fn new_udp_send_socket_ipv4(raw: bool) -> IoResult<Self> {
        Ok(with(|w| w.new_sock(SockKind::UdpSend, false, raw, raw)))
    }
    fn new_udp_send_socket_ipv6(raw: bool) -> IoResult<Self> {
        Ok(with(|w| w.new_sock(SockKind::UdpSend, true, raw, false)))
    }
    fn new_recv_socket_ipv4(_addr: std::net::Ipv4Addr, raw: bool) -> IoResult<Self> {
        Ok(with(|w| w.new_sock(SockKind::Recv, false, raw, raw)))
    }
    fn new_recv_socket_ipv6(_addr: std::net::Ipv6Addr, raw: bool) -> IoResult<Self> {
        Ok(with(|w| w.new_sock(SockKind::Recv, true, raw, false)))
    }
    fn new_stream_socket_ipv4() -> IoResult<Self> {
        Ok(with(|w| w.new_sock(SockKind::Stream, false, false, false)))
    }
    fn new_stream_socket_ipv6() -> IoResult<Self> {
        Ok(with(|w| w.new_sock(SockKind::Stream, true, false, false)))
    }
    fn new_udp_dgram_socket_ipv4() -> IoResult<Self> {
        Ok(with(|w| w.new_sock(SockKind::UdpDgram, false, false, false)))
    }
    fn new_udp_dgram_socket_ipv6() -> IoResult<Self> {
        Ok(with(|w| w.new_sock(SockKind::UdpDgram, true, false, false)))
    }
    fn bind(&mut self, address: SocketAddr) -> IoResult<()> {
        with(|w| {
            // a per-probe socket (unprivileged UDP, TCP): binding it starts a probe attempt
            if matches!(w.socks[self.id].kind, SockKind::UdpSend | SockKind::Stream) && w.socks[self.id].attempt.is_none() {
                w.start_attempt(self.id);
            }
            let menu = w.cfg.menu.bind_faults.clone();
            if let Some(e) = w.fault(self.id, "bind", &menu) {
                return Err(IoError::Bind(io_err(e), address));
            }
            w.socks[self.id].bound = Some(address);
            Ok(())
        })
    }
    fn set_tos(&mut self, tos: u32) -> IoResult<()> {
        with(|w| w.socks[self.id].tos = tos);
        Ok(())
    }
    fn set_ttl(&mut self, ttl: u32) -> IoResult<()> {
        with(|w| w.socks[self.id].ttl = ttl);
        Ok(())
    }
    fn set_reuse_port(&mut self, _reuse: bool) -> IoResult<()> {
        Ok(())
    }
    fn set_header_included(&mut self, included: bool) -> IoResult<()> {
        with(|w| w.socks[self.id].hdrincl = included);
        Ok(())
    }
    fn set_unicast_hops_v6(&mut self, hops: u8) -> IoResult<()> {
        with(|w| w.socks[self.id].hops6 = hops);
        Ok(())
    }
    fn connect(&mut self, address: SocketAddr) -> IoResult<()> {
        with(|w| {
            let menu = w.cfg.menu.connect_faults.clone();
            if let Some(e) = w.fault(self.id, "connect", &menu) {
                return Err(IoError::Connect(io_err(e), address));
            }
            let s = w.socks[self.id].clone();
            assert!(s.kind == SockKind::Stream, "MACHINERY: connect on non-stream socket");
            w.socks[self.id].connected = Some(address);
            let src = s.bound.map_or(w.cfg.src, |b| b.ip());
            let sport = s.bound.map_or(0, |b| b.port());
            let seg = wire::build_tcp_syn(sport, address.port(), src, address.ip());
            let (wire_bytes, l4off, ttl, tos) = match (src, address.ip()) {
                (IpAddr::V4(sa), IpAddr::V4(da)) => (
                    wire::build_ip4(s.tos as u8, 0x4242, 0x4000, s.ttl as u8, wire::PROTO_TCP, sa, da, &[], &seg),
                    20,
                    s.ttl as u8,
                    s.tos as u8,
                ),
                (IpAddr::V6(sa), IpAddr::V6(da)) => (
                    wire::build_ip6(0, 0, wire::PROTO_TCP, s.hops6, sa, da, &seg),
                    40,
                    s.hops6,
                    0,
                ),
                _ => panic!("MACHINERY: mixed families in connect"),
            };
            w.transmit(self.id, wire_bytes, l4off, ttl, tos, &[]);
            // a non-blocking connect reports EINPROGRESS
            Err(IoError::Connect(io_err(EINPROGRESS), address))
        })
    }
    fn send_to(&mut self, buf: &[u8], addr: SocketAddr) -> IoResult<()> {
        with(|w| {
            let menu = w.cfg.menu.send_faults.clone();
            if let Some(e) = w.fault(self.id, "send_to", &menu) {
                if w.socks[self.id].attempt.is_none() {
                    w.attempts.push(Attempt {
                        round: w.round,
                        time_ns: vclock::get(),
                        sock: self.id,
                        outcome: AttemptOutcome::Fault { errno: e, op: "send_to" },
                    });
                }
                return Err(IoError::SendTo(io_err(e), addr));
            }
            let s = w.socks[self.id].clone();
            match (s.kind.clone(), s.v6, s.hdrincl) {
                (SockKind::IcmpSend | SockKind::UdpSend, false, true) => {
                    // IP_HDRINCL: the bytes are the datagram; the kernel fills the checksum
                    let Some((ip, off)) = wire::parse_ip4(buf) else {
                        return Err(IoError::SendTo(io_err(EINVAL), addr));
                    };
                    let mut wb = buf.to_vec();
                    wire::fix_ip4_cksum(&mut wb);
                    w.transmit(self.id, wb, off, ip.ttl, ip.tos, buf);
                    Ok(())
                }
                (SockKind::UdpSend, false, false) => {
                    // unprivileged datagram socket: the kernel builds IP + UDP headers
                    let src = s.bound.map_or(w.cfg.src, |b| b.ip());
                    let sport = s.bound.map_or(0, |b| b.port());
                    let udp = wire::build_udp(sport, addr.port(), buf, src, addr.ip());
                    let (IpAddr::V4(sa), IpAddr::V4(da)) = (src, addr.ip()) else {
                        panic!("MACHINERY: family mismatch")
                    };
                    let wb = wire::build_ip4(s.tos as u8, 0x5151, 0x4000, s.ttl as u8, wire::PROTO_UDP, sa, da, &[], &udp);
                    w.transmit(self.id, wb, 20, s.ttl as u8, s.tos as u8, buf);
                    Ok(())
                }
                (SockKind::IcmpSend, true, _) => {
                    let (IpAddr::V6(sa), IpAddr::V6(da)) = (w.cfg.src, addr.ip()) else {
                        panic!("MACHINERY: family mismatch")
                    };
                    // raw ICMPv6 socket: the kernel computes the ICMPv6 checksum
                    let mut l4 = buf.to_vec();
                    if l4.len() >= 4 {
                        l4[2] = 0;
                        l4[3] = 0;
                        let c = wire::cksum(&l4, wire::pseudo_v6(sa, da, wire::PROTO_ICMPV6, l4.len()));
                        l4[2..4].copy_from_slice(&c.to_be_bytes());
                    }
                    let wb = wire::build_ip6(0, 0, wire::PROTO_ICMPV6, s.hops6, sa, da, &l4);
                    w.transmit(self.id, wb, 40, s.hops6, 0, buf);
                    Ok(())
                }
                (SockKind::UdpSend, true, _) => {
                    let src = s.bound.map_or(w.cfg.src, |b| b.ip());
                    let (IpAddr::V6(sa), IpAddr::V6(da)) = (src, addr.ip()) else {
                        panic!("MACHINERY: family mismatch")
                    };
                    let l4 = if s.raw {
                        buf.to_vec()
                    } else {
                        let sport = s.bound.map_or(0, |b| b.port());
                        wire::build_udp(sport, addr.port(), buf, src, addr.ip())
                    };
                    let wb = wire::build_ip6(0, 0, wire::PROTO_UDP, s.hops6, sa, da, &l4);
                    w.transmit(self.id, wb, 40, s.hops6, 0, buf);
                    Ok(())
                }
                other => panic!("MACHINERY: send_to on unexpected socket {other:?}"),
            }
        })
    }
    fn is_readable(&mut self, timeout: Duration) -> IoResult<bool> {
        with(|w| {
            if w.cfg.deadline_ns.is_some_and(|d| vclock::get() > d) {
                w.runaway = true;
                return Err(IoError::Other(io_err(EIO), IoOperation::Select));
            }
            let menu = w.cfg.menu.select_faults.clone();
            if let Some(e) = w.fault(self.id, "select", &menu) {
                return Err(IoError::Other(io_err(e), IoOperation::Select));
            }
            Ok(w.is_readable(timeout))
        })
    }
    fn is_writable(&mut self) -> IoResult<bool> {
        with(|w| {
            w.op_count += 1;
            let now = vclock::get();
            match w.socks[self.id].tcp.clone() {
                Tcp::InFlight { ready_at, kind: Some(_), .. } if now >= ready_at => {
                    if w.cfg.menu.delay {
                        Ok(w.chooser.choose(2) == 0)
                    } else {
                        Ok(true)
                    }
                }
                Tcp::InFlight { ready_at, kind: None, sent, from } if now >= ready_at && w.cfg.menu.tcp_host_unreachable => {
                    // Windows-style: the expired SYN surfaces on the stream socket
                    if w.chooser.choose(2) == 1 {
                        w.socks[self.id].tcp = Tcp::InFlight {
                            ready_at,
                            kind: Some(RespKind::TcpHostUnreach),
                            sent,
                            from,
                        };
                        Ok(true)
                    } else {
                        Ok(false)
                    }
                }
                _ => Ok(false),
            }
        })
    }
    fn recv_from(&mut self, buf: &mut [u8]) -> IoResult<(usize, Option<SocketAddr>)> {
        with(|w| {
            let menu = w.cfg.menu.recv_faults.clone();
            if let Some(e) = w.fault(self.id, "recv_from", &menu) {
                w.ready = None;
                return Err(IoError::Other(io_err(e), IoOperation::RecvFrom));
            }
            match w.ready.take() {
                Some((bytes, peer, rec)) => {
                    let n = bytes.len().min(buf.len());
                    buf[..n].copy_from_slice(&bytes[..n]);
                    w.deliveries.extend(rec);
                    Ok((n, peer))
                }
                None => Err(IoError::Other(io_err(EAGAIN), IoOperation::RecvFrom)),
            }
        })
    }
    fn read(&mut self, buf: &mut [u8]) -> IoResult<usize> {
        with(|w| {
            let menu = w.cfg.menu.recv_faults.clone();
            if let Some(e) = w.fault(self.id, "read", &menu) {
                w.ready = None;
                return Err(IoError::Other(io_err(e), IoOperation::Read));
            }
            match w.ready.take() {
                Some((bytes, _, rec)) => {
                    let n = bytes.len().min(buf.len());
                    buf[..n].copy_from_slice(&bytes[..n]);
                    w.deliveries.extend(rec);
                    Ok(n)
                }
                None => Err(IoError::Other(io_err(EAGAIN), IoOperation::Read)),
            }
        })
    }
    fn shutdown(&mut self) -> IoResult<()> {
        with(|w| {
            let menu = w.cfg.menu.stream_faults.clone();
            if let Some(e) = w.fault(self.id, "shutdown", &menu) {
                return Err(IoError::Other(io_err(e), IoOperation::Shutdown));
            }
            Ok(())
        })
    }
    fn peer_addr(&mut self) -> IoResult<Option<SocketAddr>> {
        with(|w| {
            let menu = w.cfg.menu.stream_faults.clone();
            if let Some(e) = w.fault(self.id, "peer_addr", &menu) {
                return Err(IoError::Other(io_err(e), IoOperation::PeerAddr));
            }
            Ok(w.socks[self.id].connected)
        })
    }
    fn take_error(&mut self) -> IoResult<Option<SocketError>> {
        let faulted = with(|w| {
            let menu = w.cfg.menu.stream_faults.clone();
            let f = w.fault(self.id, "take_error", &menu);
            if f.is_some() {
                // the tracer abandons this socket; whatever it would have reported is never seen
                w.socks[self.id].tcp = Tcp::Done;
            }
            f
        });
        if let Some(e) = faulted {
            return Err(IoError::Other(io_err(e), IoOperation::TakeError));
        }
        with(|w| match w.socks[self.id].tcp.clone() {
            Tcp::InFlight { kind: Some(kind), sent, from, .. } => {
                w.socks[self.id].tcp = Tcp::Done;
                let id = w.push_resp(sent, from, kind, vec![], true, None, None);
                w.deliveries.push(DeliveryRec {
                    resp: id,
                    for_sent: sent,
                    time_ns: vclock::get(),
                    round: w.round,
                    genuine: true,
                    junk: None,
                });
                Ok(match kind {
                    RespKind::TcpSynAck => None,
                    RespKind::TcpRst => Some(SocketError::ConnectionRefused),
                    RespKind::TcpHostUnreach => Some(SocketError::HostUnreachable),
                    _ => Some(SocketError::Other(io_err(EIO))),
                })
            }
            _ => Ok(Some(SocketError::Other(io_err(EIO)))),
        })
    }
    fn icmp_error_info(&mut self) -> IoResult<IpAddr> {
        with(|w| {
            let d = w.deliveries.last().expect("MACHINERY: icmp_error_info without delivery");
            Ok(w.resps[d.resp].from)
        })
    }
}
