//! C11 — every probe put on the wire is well-formed and as configured.
//! The real strategy issues the probes (real allocator, real `probe_*_data`, real dispatch);
//! every datagram handed to the simulated socket is decoded with the independent RFC codec.

use crate::drive::{self, all_cells, Cell, Ports, TraceParams, FIXED_DPORT, FIXED_SPORT};
use crate::mc::{self, Chooser};
use crate::report::{Args, Finding, Report, Tier};
use crate::simnet::{Menu, Proto, SentRec, Target};
use crate::wire;
use serde_json::json;
use std::collections::BTreeMap;
use std::net::IpAddr;
use std::sync::Mutex;
use std::time::Duration;
use trippy_core::{MultipathStrategy, Probe, ProbeStatus};

type Findings = BTreeMap<String, Finding>;

fn probe_of(s: &ProbeStatus) -> Option<&Probe> {
    match s {
        ProbeStatus::Awaited(p) => Some(p),
        _ => None,
    }
}

/// Decode one datagram and compare it with the configuration and the probe the strategy claims.
pub fn check_datagram(cell: &Cell, p: &TraceParams, s: &SentRec, probe: &Probe, round: usize) -> Vec<(String, String)> {
    let mut bad: Vec<(String, String)> = vec![];
    let mut fail = |k: &str, d: String| bad.push((k.to_string(), d));
    let w = &s.wire;
    let seq = probe.sequence.0;
    let ttl = probe.ttl.0;
    let size = usize::from(p.packet_size);
    let (l4, src, dst): (&[u8], IpAddr, IpAddr);
    if cell.v6 {
        let Some(ip) = wire::parse_ip6(w) else {
            fail("undecodable", "IPv6 header".into());
            return bad;
        };
        if ip.version != 6 {
            fail("ip-version", format!("{}", ip.version));
        }
        if ip.hop_limit != ttl {
            fail("hop-limit", format!("hop limit {} but probe ttl {ttl}", ip.hop_limit));
        }
        if usize::from(ip.payload_len) != w.len() - 40 {
            fail("ip-length", format!("payload length {} vs {}", ip.payload_len, w.len() - 40));
        }
        let want_next = match cell.proto {
            Proto::Icmp => wire::PROTO_ICMPV6,
            Proto::Udp => wire::PROTO_UDP,
            Proto::Tcp => wire::PROTO_TCP,
        };
        if ip.next != want_next {
            fail("ip-protocol", format!("next header {}", ip.next));
        }
        src = IpAddr::V6(ip.src);
        dst = IpAddr::V6(ip.dst);
        l4 = &w[40..];
    } else {
        let Some((ip, off)) = wire::parse_ip4(w) else {
            fail("undecodable", "IPv4 header".into());
            return bad;
        };
        if ip.version != 4 || ip.ihl != 5 {
            fail("ip-version-ihl", format!("version {} ihl {}", ip.version, ip.ihl));
        }
        if usize::from(ip.total_len) != w.len() {
            fail("ip-length", format!("total length {} but {} octets handed to the socket", ip.total_len, w.len()));
        }
        if cell.proto != Proto::Tcp && (cell.privileged || cell.proto == Proto::Icmp) {
            // header built by the tracer: DF must be set, nothing else in the flags/fragment word
            let (hip, _) = wire::parse_ip4(&s.handed).expect("MACHINERY: handed bytes");
            if hip.flags_frag != 0x4000 {
                fail("dont-fragment", format!("flags/fragment word {:#06x}", hip.flags_frag));
            }
            if s.handed.len() != w.len() {
                fail("ip-length", format!("handed {} octets, header says {}", s.handed.len(), w.len()));
            }
        }
        if ip.ttl != ttl {
            fail("ttl", format!("ttl {} but probe ttl {ttl}", ip.ttl));
        }
        if ip.tos != p.tos {
            fail("tos", format!("tos {:#04x} but configured {:#04x}", ip.tos, p.tos));
        }
        let want = match cell.proto {
            Proto::Icmp => wire::PROTO_ICMP,
            Proto::Udp => wire::PROTO_UDP,
            Proto::Tcp => wire::PROTO_TCP,
        };
        if ip.proto != want {
            fail("ip-protocol", format!("protocol {}", ip.proto));
        }
        if cell.proto == Proto::Udp && cell.strategy == MultipathStrategy::Dublin && ip.id != seq {
            fail("dublin-ip-id", format!("identification {} but sequence {seq}", ip.id));
        }
        src = IpAddr::V4(ip.src);
        dst = IpAddr::V4(ip.dst);
        l4 = &w[off..];
    }
    if src != cell.src() || dst != cell.dst() {
        fail("addresses", format!("{src} -> {dst} but configured {} -> {}", cell.src(), cell.dst()));
    }
    let round_port = ((usize::from(p.initial_sequence) + round) % 65535) as u16;
    let ip_hdr = if cell.v6 { 40 } else { 20 };
    match cell.proto {
        Proto::Icmp => {
            let Some(e) = wire::parse_echo(l4) else {
                fail("undecodable", "ICMP echo".into());
                return bad;
            };
            let want_type = if cell.v6 { wire::ICMP6_ECHO_REQUEST } else { wire::ICMP4_ECHO_REQUEST };
            if e.typ != want_type || e.code != 0 {
                fail("icmp-type", format!("type {} code {}", e.typ, e.code));
            }
            if e.id != p.trace_id {
                fail("icmp-identifier", format!("identifier {} but trace id {}", e.id, p.trace_id));
            }
            if e.seq != seq {
                fail("icmp-sequence", format!("sequence {} but probe {seq}", e.seq));
            }
            // checksum as computed by the tracer (handed bytes), against the addresses in force
            let handed_l4 = if cell.v6 { &s.handed[..] } else { &s.handed[20.min(s.handed.len())..] };
            let ps = if cell.v6 { wire::pseudo(cell.src(), cell.dst(), wire::PROTO_ICMPV6, handed_l4.len()) } else { 0 };
            if !wire::verifies(handed_l4, ps) {
                fail("icmp-checksum", "ICMP checksum computed by the tracer does not verify".into());
            }
            if w.len() != size {
                fail("packet-size", format!("{} octets on the wire, configured {size}", w.len()));
            }
            if e.payload.iter().any(|b| *b != p.pattern) || e.payload.len() != size - ip_hdr - 8 {
                fail("payload-pattern", format!("payload {} octets, pattern {:#04x}", e.payload.len(), p.pattern));
            }
        }
        Proto::Udp => {
            let Some(u) = wire::parse_udp(l4) else {
                fail("undecodable", "UDP".into());
                return bad;
            };
            if usize::from(u.len) != l4.len() {
                fail("udp-length", format!("UDP length {} but {} octets", u.len, l4.len()));
            }
            let ps = wire::pseudo(cell.src(), cell.dst(), wire::PROTO_UDP, l4.len());
            if !wire::verifies(l4, ps) && u.cksum != 0 {
                fail("udp-checksum", format!("UDP checksum {:#06x} does not verify", u.cksum));
            }
            // A zero checksum field over IPv6 (Paris with sequence 0) still folds to 0xFFFF, which is
            // what the statement (and C13) asks for; RFC 8200 receivers would drop it.  Scoping
            // decision (DESIGN.md 5.13): reported as an observation by the caller, not a violation.
            let (want_sport, want_dport): (Option<u16>, Option<u16>) = match (cell.strategy, cell.ports) {
                (MultipathStrategy::Classic, Ports::FixedSrc) => (Some(FIXED_SPORT), Some(seq)),
                (MultipathStrategy::Classic, Ports::FixedDest) => (Some(seq), Some(FIXED_DPORT)),
                (_, Ports::FixedSrc) => (Some(FIXED_SPORT), Some(round_port)),
                (_, Ports::FixedDest) => (Some(round_port), Some(FIXED_DPORT)),
                (_, Ports::FixedBoth) => (Some(FIXED_SPORT), Some(FIXED_DPORT)),
                _ => (None, None),
            };
            if want_sport.is_some_and(|x| x != u.sport) || want_dport.is_some_and(|x| x != u.dport) {
                fail("udp-ports", format!("ports {} -> {} but expected {want_sport:?} -> {want_dport:?} (sequence {seq}, round {round})", u.sport, u.dport));
            }
            if u.sport != probe.src_port.0 || u.dport != probe.dest_port.0 {
                fail("udp-ports-vs-probe", format!("ports {} -> {} but the probe record says {} -> {}", u.sport, u.dport, probe.src_port.0, probe.dest_port.0));
            }
            match (cell.strategy, cell.v6) {
                (MultipathStrategy::Paris, _) => {
                    if u.cksum != seq {
                        fail("paris-checksum", format!("checksum field {:#06x} but sequence {seq}", u.cksum));
                    }
                }
                (MultipathStrategy::Dublin, true) => {
                    let want_len = 6 + usize::from(seq - p.initial_sequence);
                    if u.payload.len() != want_len || !u.payload.starts_with(b"trippy") {
                        fail("dublin-v6-payload", format!("payload {} octets (magic {}), expected {want_len}", u.payload.len(), u.payload.starts_with(b"trippy")));
                    }
                    if u.payload.iter().skip(6).any(|b| *b != p.pattern) {
                        fail("payload-pattern", "Dublin/IPv6 filler is not the pattern".into());
                    }
                }
                _ => {
                    if w.len() != size {
                        fail("packet-size", format!("{} octets on the wire, configured {size}", w.len()));
                    }
                    if u.payload.iter().any(|b| *b != p.pattern) || u.payload.len() != size - ip_hdr - 8 {
                        fail("payload-pattern", format!("payload {} octets, pattern {:#04x}", u.payload.len(), p.pattern));
                    }
                }
            }
        }
        Proto::Tcp => {
            // kernel-built SYN: only the socket options / addresses are the tracer's
            let sport = u16::from_be_bytes([l4[0], l4[1]]);
            let dport = u16::from_be_bytes([l4[2], l4[3]]);
            let (ws, wd) = match cell.ports {
                Ports::FixedSrc => (FIXED_SPORT, seq),
                _ => (seq, FIXED_DPORT),
            };
            if sport != ws || dport != wd {
                fail("tcp-ports", format!("ports {sport} -> {dport} but expected {ws} -> {wd}"));
            }
        }
    }
    bad
}

struct Task {
    cell: Cell,
    p: TraceParams,
}

/// Run one configuration over a silent network and check every datagram it put on the wire.
fn run_task(cell: &Cell, p: &TraceParams) -> (drive::RunOutcome, Vec<(String, String)>, u64) {
    let min = if cell.v6 { 48u16 } else { 28 };
    let illegal = cell.proto != Proto::Tcp && !(min..=1024).contains(&p.packet_size) || p.packet_size > 1024;
    let topo = drive::topo_linear(cell, 1, Target::Silent);
    let net = drive::net_cfg(cell, p, topo, Menu::default());
    let o = drive::run_trace(cell, p, net, Chooser::new(&[], 0));
    let mut local: Vec<(String, String)> = vec![];
    let mut n = 0u64;
    if let Some(pn) = &o.panic {
        local.push((pn.key(), format!("{} at {}:{}", pn.message, pn.file, pn.line)));
    } else if illegal {
        match &o.result {
            Err(e) if e.contains("InvalidPacketSize") => {}
            other => local.push(("illegal-size-not-refused".into(), format!("packet size {} gave {other:?}", p.packet_size))),
        }
        if !o.world.sent.is_empty() {
            local.push(("illegal-size-sent".into(), format!("packet size {}: {} datagrams were sent", p.packet_size, o.world.sent.len())));
        }
        n += 1;
    } else {
        if let Err(e) = &o.result {
            local.push(("run-error".into(), e.clone()));
        }
        for (r, publ) in o.world.publishes.iter().enumerate() {
            let sent: Vec<&SentRec> = o.world.sent.iter().filter(|s| s.round == r).collect();
            if sent.len() != publ.probes.len() {
                local.push(("slot-count".into(), format!("round {r}: {} datagrams, {} slots", sent.len(), publ.probes.len())));
                continue;
            }
            for (s, slot) in sent.iter().zip(&publ.probes) {
                if local.len() > 200 {
                    // enough discrepancies to name every failing clause of this task
                    break;
                }
                n += 1;
                match probe_of(slot) {
                    Some(probe) => local.extend(check_datagram(cell, p, s, probe, r)),
                    None => local.push(("slot-not-awaited".into(), format!("{slot:?}"))),
                }
            }
        }
        if o.world.publishes.len() != p.rounds {
            local.push(("round-count".into(), format!("{}", o.world.publishes.len())));
        }
    }
    (o, local, n)
}

pub fn replay(path: &str) -> i32 {
    let s = std::fs::read_to_string(path).expect("MACHINERY: cannot read replay file");
    let v: serde_json::Value = serde_json::from_str(&s).expect("MACHINERY: replay JSON");
    let r = if v.get("replay").is_some() { &v["replay"] } else { &v };
    let cell = all_cells()[r["cell_index"].as_u64().unwrap() as usize];
    let p = crate::c01::params_from_json(&r["params"]);
    let (o, bad, n) = run_task(&cell, &p);
    println!("replay C11: {} packet_size={} tos={} pattern={} initial_sequence={}: {n} datagrams checked, result {:?}", cell.name(), p.packet_size, p.tos, p.pattern, p.initial_sequence, o.result);
    if let Some(sr) = o.world.sent.first() {
        println!("first datagram: {}", sr.wire.iter().map(|b| format!("{b:02x}")).collect::<String>());
    }
    for (k, d) in bad.iter().take(10) {
        println!("DISCREPANCY {k}: {d}");
    }
    if bad.is_empty() {
        println!("replay: property held");
        0
    } else {
        println!("VIOLATION property=C11 replay={path}");
        1
    }
}

pub fn run(args: &Args) -> i32 {
    if let Some(path) = &args.replay {
        return replay(path);
    }
    let tier = args.tier;
    let mut rep = Report::new("C11", tier, "exploration");
    let mut tasks: Vec<Task> = vec![];
    for cell in all_cells() {
        let min = if cell.v6 { 48u16 } else { 28 };
        let base = |size: u16, tos: u8, pattern: u8, max_ttl: u8, init: u16| TraceParams {
            packet_size: size,
            tos,
            pattern,
            first_ttl: 1,
            max_ttl,
            max_inflight: 255,
            rounds: 2,
            initial_sequence: init,
            // one probe per loop iteration, each iteration costs one read timeout of virtual time
            read_timeout: Duration::from_micros(10),
            min_round: Duration::from_micros(10 * (u64::from(max_ttl) + 3)),
            max_round: Duration::from_micros(10 * (u64::from(max_ttl) + 3)),
            grace: Duration::from_micros(1),
            // keep the channel's table of outstanding TCP probes short (its capacity is C16/C09's topic)
            tcp_connect_timeout: Duration::from_micros(500),
            ..TraceParams::default()
        };
        // all sizes (ICMP and UDP; TCP ignores the size)
        let sizes: Vec<u16> = if cell.proto == Proto::Tcp { vec![84] } else { (min..=1024).collect() };
        for &size in &sizes {
            let full = true;
            let combos: Vec<(u8, u8)> = if full { vec![(0, 0), (1, 0xaa), (0xfc, 0xff), (0xff, 0x55)] } else { vec![((size % 251) as u8, (size % 253) as u8)] };
            for (tos, pattern) in combos {
                tasks.push(Task { cell, p: base(size, tos, pattern, 4, 33434) });
            }
        }
        // all tos, all ttl (254 probes per round), boundary initial sequences
        for size in [min.max(if cell.v6 { 48 } else { 28 }), 84.max(min), 1024] {
            let toses: Vec<u8> = (0..=255).collect();
            for tos in toses {
                tasks.push(Task { cell, p: base(size, tos, tos.wrapping_mul(7), 254, 33434) });
            }
            for init in [0u16, 1, 255, 256, 0x7fff, 0x8000, 63999, 64511] {
                tasks.push(Task { cell, p: base(size, 0, 0, 254, init) });
            }
        }
        // the full issuable sequence range: 254 probes per round from sequence 0 until the allocator
        // has wrapped (every cell in thorough, one cell per protocol/strategy/family class in quick)
        let class_rep = cell.privileged && !cell.ext && matches!(cell.ports, crate::drive::Ports::None | crate::drive::Ports::FixedSrc);
        if tier == Tier::Thorough || class_rep {
            let mut p = base(84.max(min), 0x28, 0x3c, 254, 0);
            p.rounds = 258;
            tasks.push(Task { cell, p });
        }
        // thorough: every tos x six patterns at six sizes
        if tier == Tier::Thorough && cell.proto != Proto::Tcp {
            for size in [min, min + 1, 84.max(min), 85.max(min), 1023, 1024] {
                for tos in 0..=255u8 {
                    for pattern in [0u8, 1, 0x55, 0xaa, 0xfe, 0xff] {
                        tasks.push(Task { cell, p: base(size, tos, pattern, 2, 33434) });
                    }
                }
            }
        }
        // the same ttl in consecutive probes (first_ttl == max_ttl: one probe per round), so that
        // nothing carried over from the previous probe can stand in for this probe's own settings
        for ttl in [1u8, 7, 254] {
            let mut p = base(84.max(min), 0x44, 0x0f, ttl, 33434);
            p.first_ttl = ttl;
            p.rounds = 4;
            tasks.push(Task { cell, p });
        }
        // illegal sizes: refused, nothing sent
        for size in [0u16, 1, min - 1, 1025, 2000, 65535] {
            tasks.push(Task { cell, p: base(size, 0, 0, 3, 33434) });
        }
    }
    let findings: Mutex<Findings> = Mutex::new(Findings::new());
    let totals = Mutex::new((0u64, 0u64, 0u64, vec![]));
    mc::par_for(tasks.len(), mc::workers(), |ti| {
        let t = &tasks[ti];
        let (cell, p) = (&t.cell, &t.p);
        let min = if cell.v6 { 48u16 } else { 28 };
        let illegal = cell.proto != Proto::Tcp && !(min..=1024).contains(&p.packet_size) || p.packet_size > 1024;
        let (o, local, n) = run_task(cell, p);
        let mut tt = totals.lock().unwrap();
        tt.0 += n;
        tt.1 += 1;
        if !illegal {
            tt.2 += n;
        }
        if tt.3.len() < 3 && ti % 1000 == 17 {
            if let Some(s) = o.world.sent.first() {
                tt.3.push(json!({"cell": cell.name(), "packet_size": p.packet_size, "tos": p.tos, "pattern": p.pattern, "first_datagram": s.wire.iter().take(64).map(|b| format!("{b:02x}")).collect::<String>()}));
            }
        }
        drop(tt);
        if !local.is_empty() {
            let mut g = findings.lock().unwrap();
            for (k, d) in local {
                let key = format!("{k}@{}", cell.name().split('/').take(5).collect::<Vec<_>>().join("/"));
                let e = g.entry(key.clone()).or_insert_with(|| Finding {
                    key,
                    detail: format!("[{} size={} tos={} pattern={} init_seq={}] {d}", cell.name(), p.packet_size, p.tos, p.pattern, p.initial_sequence),
                    replay: json!({"check":"C11","cell":cell.name(),"cell_index":crate::c01::cell_index(cell),"params":crate::c01::params_json(p)}),
                    weight: (0, usize::from(p.packet_size)),
                    count: 0,
                });
                e.count += 1;
            }
        }
    });
    let (n, runs, legal, samples) = totals.into_inner().unwrap();
    rep.merge_findings(findings.into_inner().unwrap());
    rep.set("evaluations", json!(n));
    rep.set("distinct_nontrivial", json!(legal));
    rep.set("tracer_runs", json!(runs));
    rep.set("rule", json!("56 cells; probes issued by the real strategy over a silent network (2 rounds): every packet size min..1024 (x4 tos/pattern combinations) with ttl 1..4; every ttl 1..254 x every tos 0..255 x sizes {min,84,1024}; initial sequences {0,1,255,256,0x7fff,0x8000,63999,64511}; the whole issuable sequence range (258 rounds x 254 probes from sequence 0; one cell per class in quick, all cells in thorough); one probe per round at ttl {1,7,254} (the same ttl in consecutive probes), 4 rounds; thorough: every tos x 6 patterns x 6 sizes; illegal sizes {0,1,min-1,1025,2000,65535} must be refused with InvalidPacketSize and nothing sent. Each datagram decoded by the independent codec and compared with configuration and with the strategy's own probe record. distinct_nontrivial = decoded datagrams of legal configurations (all distinct: size/ttl/sequence differ)"));
    for s in samples {
        rep.sample(s);
    }
    if rep.samples.is_empty() {
        rep.sample(json!({"cell": "icmp/v4", "packet_size": 28, "ttl": "1..4"}));
    }
    rep.assumptions = vec![crate::c01::ASSUME.into(), "TCP SYN segments are kernel-built: only ports, addresses, ttl/hop limit and tos (socket options) are checked".into()];
    rep.finish()
}
