//! C03 — only genuine current-round responses can complete a probe.
//! E1 over E2 with the junk menu; oracle = inert-replacement differential: the same execution
//! with every junk datagram replaced by one the receive path discards at once must publish
//! bit-identical rounds and end in the same snapshot.

use crate::c01::{self, Task};
use crate::drive::{self, Ports, TraceParams};
use crate::mc::{self, Chooser};
use crate::report::{Args, Finding, Report, Tier};
use crate::simnet::{self, JunkKind, Menu, Proto};
use serde_json::{json, Value};
use std::collections::{BTreeMap, HashSet};
use std::sync::Mutex;
use trippy_core::MultipathStrategy;

/// The trace identifiers the command line gives to `n` sibling tracers of a process whose id
/// (mod 65535) is `pid`: asked of the real `start_tracers` through the `vtui cli-ids` helper, which
/// the dispatcher builds next to this binary.
fn cli_identifiers(pid: u16, n: usize) -> Result<Vec<u16>, String> {
    let exe = std::env::current_exe().expect("MACHINERY: current_exe");
    let vtui = exe.parent().expect("MACHINERY: exe dir").join("vtui");
    let out = std::process::Command::new(&vtui)
        .args(["cli-ids", &pid.to_string(), &n.to_string()])
        .output()
        .unwrap_or_else(|e| panic!("MACHINERY: cannot run {}: {e}", vtui.display()));
    let text = String::from_utf8_lossy(&out.stdout).to_string();
    for line in text.lines() {
        if let Some(rest) = line.strip_prefix("CLI-IDS ") {
            return Ok(rest.split_whitespace().map(|x| x.parse().expect("MACHINERY: cli-ids output")).collect());
        }
        if line.starts_with("CLI-IDS-ERROR") || line.starts_with("CLI-IDS-PANIC") {
            return Err(line.to_string());
        }
    }
    panic!("MACHINERY: vtui cli-ids printed nothing usable (status {:?}): {text} {}", out.status, String::from_utf8_lossy(&out.stderr));
}

fn junk_menu(t: &Task, sibling_delta: u16) -> Vec<JunkKind> {
    if t.topo == "far-target-late" {
        // slots 201..253 keep the Awaited probes of the long first round; after the wrap-around
        // their sequence numbers are in the window again
        return vec![JunkKind::NeverSent(230), JunkKind::NeverSent(253), JunkKind::NeverSent(201), JunkKind::NextUnissued];
    }
    if t.topo == "L3-flaky" {
        // a probe of this round failed at the socket (Failed) or found its port taken (Skipped):
        // its sequence number was never sent
        return vec![JunkKind::Unsent, JunkKind::NextUnissued, JunkKind::Duplicate];
    }
    let mut v = vec![JunkKind::Duplicate, JunkKind::SecondAnswerFromTarget, JunkKind::Late, JunkKind::NextUnissued, JunkKind::NeverSent(-1), JunkKind::NeverSent(511), JunkKind::NeverSent(512), JunkKind::NeverSent(300)];
    if t.cell.proto == Proto::Icmp {
        v.push(JunkKind::ForeignId(sibling_delta));
        v.push(JunkKind::ForeignEchoReply(sibling_delta));
    } else {
        v.push(JunkKind::ForeignTarget);
        v.push(JunkKind::ForeignTargetViaTarget);
        v.push(JunkKind::ForeignPort);
        if t.cell.ports == crate::drive::Ports::FixedBoth {
            v.push(JunkKind::ForeignPortDest);
        }
    }
    v
}

fn menu(t: &Task, sibling_delta: u16, inert: bool) -> Menu {
    // the long wrap-around runs (254 probes per round) only inject junk
    let long = t.params.max_ttl == 254;
    let flaky = t.topo == "L3-flaky";
    Menu {
        delay: !long && (!flaky || t.bound > 2),
        reorder: false,
        dup: false,
        loss: !long && !flaky,
        junk: junk_menu(t, sibling_delta),
        inert_junk: inert,
        // transient socket failures only (C09 covers the fatal ones)
        send_faults: if flaky { vec![simnet::EHOSTUNREACH] } else { vec![] },
        bind_faults: if flaky && t.cell.proto == Proto::Tcp { vec![simnet::EADDRINUSE] } else { vec![] },
        connect_faults: if flaky && t.cell.proto == Proto::Tcp { vec![simnet::ENETUNREACH] } else { vec![] },
        ..Menu::default()
    }
}

fn run_once(t: &Task, sibling_delta: u16, inert: bool, ch: Chooser) -> drive::RunOutcome {
    let topo = drive::topo_named(&t.cell, t.topo);
    let net = drive::net_cfg(&t.cell, &t.params, topo, menu(t, sibling_delta, inert));
    drive::run_trace(&t.cell, &t.params, net, ch)
}

fn snapshot_digest(o: &drive::RunOutcome) -> u64 {
    let Some(st) = &o.snapshot else { return 0 };
    let mut v = vec![];
    if let Ok(hops) = mc::catch(|| st.hops().to_vec()) {
        for h in hops {
            v.push((h.ttl(), h.total_sent(), h.total_recv(), h.total_failed(), h.addr_count(), h.last_ms().map(f64::to_bits), h.best_ms().map(f64::to_bits), h.worst_ms().map(f64::to_bits), h.samples().len(), h.last_sequence()));
        }
    }
    mc::hash64(&(v, st.flows().len(), st.round_count(trippy_core::State::default_flow_id())))
}

fn diff(a: &drive::RunOutcome, b: &drive::RunOutcome) -> Option<String> {
    if a.result != b.result {
        return Some(format!("run result {:?} vs {:?}", a.result, b.result));
    }
    let (pa, pb) = (&a.world.publishes, &b.world.publishes);
    if pa.len() != pb.len() {
        return Some(format!("{} vs {} rounds published", pa.len(), pb.len()));
    }
    for (r, (x, y)) in pa.iter().zip(pb).enumerate() {
        if x.time_ns != y.time_ns {
            return Some(format!("round {r} published at {} vs {}", x.time_ns, y.time_ns));
        }
        if x.largest_ttl != y.largest_ttl || x.target_found != y.target_found {
            return Some(format!("round {r}: largest_ttl {} vs {}, target found {} vs {}", x.largest_ttl, y.largest_ttl, x.target_found, y.target_found));
        }
        if x.probes != y.probes {
            let i = x.probes.iter().zip(&y.probes).position(|(p, q)| p != q);
            return Some(format!("round {r}: slot {i:?} differs: {:?} vs {:?} ({} vs {} slots)", i.map(|i| &x.probes[i]), i.map(|i| &y.probes[i]), x.probes.len(), y.probes.len()));
        }
    }
    if snapshot_digest(a) != snapshot_digest(b) {
        return Some("final snapshots differ".into());
    }
    None
}

#[derive(Default)]
struct Agg {
    stats: mc::ExploreStats,
    findings: BTreeMap<String, Finding>,
    digests: u64,
    junk_runs: u64,
    by_kind: BTreeMap<String, u64>,
    samples: Vec<Value>,
    replays: u64,
}

pub fn run(args: &Args) -> i32 {
    if let Some(path) = &args.replay {
        return replay(path);
    }
    let tier = args.tier;
    let mut rep = Report::new("C03", tier, "model_checking");
    let bound = if tier == Tier::Thorough { 3 } else { 2 };
    // identifiers the CLI assigns: asked of the real start_tracers for process ids (mod 65535)
    // {0,1,2,0x1234,65533,65534} with three targets; they must be pairwise distinct, and every
    // ordered pair of neighbours becomes an (own, sibling) pair of the tasks below
    let mut cli_findings: BTreeMap<String, Finding> = BTreeMap::new();
    let mut cli_pairs: Vec<(u16, u16)> = vec![];
    let mut cli_assignments = vec![];
    for pid in [0u16, 1, 2, 0x1234, 65533, 65534] {
        match cli_identifiers(pid, 3) {
            Ok(ids) => {
                cli_assignments.push(json!({"pid": pid, "identifiers": ids}));
                for i in 0..ids.len() {
                    for j in 0..ids.len() {
                        if i != j && ids[i] == ids[j] {
                            let key = "cli-assigns-one-identifier-to-two-tracers".to_string();
                            cli_findings.entry(key.clone()).or_insert_with(|| Finding { key, detail: format!("process id {pid} (mod 65535), 3 targets: identifiers {ids:?}"), replay: json!({"check":"C03","part":"cli-ids","pid":pid,"targets":3}), weight: (0, 0), count: 1 });
                        }
                    }
                }
                for w in ids.windows(2) {
                    cli_pairs.push((w[0], w[1]));
                    cli_pairs.push((w[1], w[0]));
                }
            }
            Err(e) => {
                let key = format!("cli-identifier-assignment-fails:{}", e.split(" at ").next().unwrap_or(&e).replace(char::is_numeric, "#"));
                cli_findings.entry(key.clone()).or_insert_with(|| Finding { key, detail: format!("process id {pid} (mod 65535), 3 targets: {e}"), replay: json!({"check":"C03","part":"cli-ids","pid":pid,"targets":3}), weight: (0, 0), count: 1 });
            }
        }
    }
    cli_pairs.sort_unstable();
    cli_pairs.dedup();
    cli_pairs.retain(|(a, b)| a != b);
    // (task, own trace id, sibling delta)
    let mut tasks: Vec<(Task, u16)> = vec![];
    for cell in drive::base_cells() {
        for topo in ["L2", "L3", "silent-mid"] {
            // identifiers the CLI assigns: pid+i for pid in {0,1,2,65533,65534}, i in {0,1};
            // (own id, sibling id) pairs in both directions
            let pairs: Vec<(u16, u16)> = if cell.proto == Proto::Icmp {
                let mut v = vec![(1, 0), (0, 1), (2, 1), (3, 2), (65534, 65533), (65533, 65534), (0x1234, 0x1235)];
                // quick: of the pairs read from the command-line layer only those at the wrap-around of
                // the identifier space (the others differ from the fixed pairs by an offset only)
                v.extend(cli_pairs.iter().copied().filter(|p| !v.contains(p) && (tier == Tier::Thorough || p.0 == u16::MAX || p.1 == u16::MAX)).collect::<Vec<_>>());
                v
            } else {
                vec![(0x1234, 0x1235)]
            };
            for (own, sib) in pairs {
                if tier == Tier::Quick && topo != "L2" && own != 1 && own != 0x1234 {
                    continue;
                }
                let mut p = TraceParams::default();
                p.rounds = 3;
                p.trace_id = own;
                p.packet_size = if cell.v6 { 96 } else { 84 };
                // wrap-around inside the horizon for the Dublin/IPv6 regime comes for free (512 numbers)
                tasks.push((Task { cell, topo, params: p, bound }, sib.wrapping_sub(own)));
            }
        }
        // sequence wrap inside the horizon: 254-probe rounds just below the maximum sequence
        if tier == Tier::Thorough || (matches!(cell.ports, Ports::None) && !cell.v6) || (cell.strategy == MultipathStrategy::Dublin && cell.v6) {
            // 64511: the allocator wraps after two rounds; 63999: after five (thorough only)
            for (init, rounds) in if tier == Tier::Thorough { vec![(63999u16, 7usize), (64511, 4)] } else { vec![(64511u16, 4usize)] } {
                let mut p = TraceParams::default();
                p.rounds = rounds;
                p.initial_sequence = init;
                p.max_ttl = 254;
                p.max_inflight = 255;
                p.read_timeout = std::time::Duration::from_micros(10);
                p.min_round = std::time::Duration::from_micros(10 * 257);
                p.max_round = std::time::Duration::from_micros(10 * 257);
                p.grace = std::time::Duration::from_micros(1);
                p.tcp_connect_timeout = std::time::Duration::from_micros(500);
                p.packet_size = if cell.v6 { 96 } else { 84 };
                tasks.push((Task { cell, topo: "silent-target", params: p, bound: 1 }, 1));
            }
        }
    }
    // transient socket failures: a Failed / Skipped slot's sequence number was never sent; a
    // response naming it must change nothing (deviations: the fault(s) and the junk)
    for cell in drive::base_cells() {
        let mut p = TraceParams::default();
        p.rounds = 2;
        p.trace_id = 0x1234;
        p.packet_size = if cell.v6 { 96 } else { 84 };
        tasks.push((Task { cell, topo: "L3-flaky", params: p, bound }, 1));
    }
    // the other port directions (pinned destination, both pinned): foreign-port responses
    for cell in drive::all_cells().into_iter().filter(|c| c.privileged && !c.ext && matches!(c.ports, Ports::FixedDest | Ports::FixedBoth)) {
        for topo in if tier == Tier::Thorough { vec!["L2", "L3", "silent-mid"] } else { vec!["L2"] } {
            let mut p = TraceParams::default();
            p.rounds = 3;
            p.trace_id = 0x1234;
            p.packet_size = if cell.v6 { 96 } else { 84 };
            tasks.push((Task { cell, topo, params: p, bound }, 1));
        }
    }
    // a long first round (254 probes, target silent), then shorter rounds (target at distance 200
    // answers), then the wrap-around: leftovers of round 0 sit in slots the new round has not
    // reached while their sequence numbers are valid again
    for cell in drive::base_cells() {
        let general = cell.proto == Proto::Icmp;
        let dublin6 = cell.strategy == MultipathStrategy::Dublin && cell.v6;
        if !(general || dublin6) {
            continue;
        }
        let mut p = TraceParams::default();
        p.rounds = 4;
        p.initial_sequence = if dublin6 { 33434 } else { 64511 };
        p.max_ttl = 254;
        p.max_inflight = 255;
        p.read_timeout = std::time::Duration::from_micros(10);
        p.min_round = std::time::Duration::from_micros(10 * 257);
        p.max_round = std::time::Duration::from_micros(10 * 257);
        p.grace = std::time::Duration::from_micros(1);
        p.packet_size = if cell.v6 { 96 } else { 84 };
        tasks.push((Task { cell, topo: "far-target-late", params: p, bound: 1 }, 1));
    }
    // the long tasks (254 probes per round: ~1000 choice points) are split into 16 disjoint shards
    // each (partition by the position of the first deviation), the short ones run whole
    let sharded: Vec<(Task, u16, usize, usize)> = tasks
        .iter()
        .flat_map(|(t, d)| {
            let n = if t.params.max_ttl == 254 { 16 } else { 1 };
            (0..n).map(move |k| (t.clone(), *d, k, n))
        })
        .collect();
    let agg = Mutex::new(Agg::default());
    let max_points = 1500;
    mc::par_for(sharded.len(), mc::workers(), |ti| {
        let (t, delta, shard, nshards) = &sharded[ti];
        let (shard, nshards) = (*shard, *nshards);
        let mut local = Agg::default();
        let mut digests: HashSet<u64> = HashSet::new();
        let mut first = true;
        let stats = mc::explore_shard(t.bound, max_points, shard, nshards, &mut |ch| {
            let c = std::mem::replace(ch, Chooser::new(&[], 0));
            let o = run_once(t, *delta, false, c);
            *ch = o.world.chooser.clone();
            digests.insert(c01::observation_digest(&o.world));
            let mut bad: Vec<(String, String)> = vec![];
            if let Some(p) = &o.panic {
                bad.push((p.key(), format!("{} at {}:{}", p.message, p.file, p.line)));
            }
            if o.world.n_junk > 0 {
                local.junk_runs += 1;
                let kinds: Vec<JunkKind> = o.world.deliveries.iter().filter_map(|d| d.junk).collect();
                for k in &kinds {
                    *local.by_kind.entry(format!("{k:?}").split('(').next().unwrap().to_string()).or_default() += 1;
                }
                let o2 = run_once(t, *delta, true, Chooser::lenient(&ch.choices, max_points));
                if o2.world.chooser.diverged || o2.world.chooser.choices != ch.choices {
                    bad.push((format!("trace-changed-by-junk:{}", kind_names(&kinds)), format!("with the junk replaced by an inert datagram the execution takes a different course (junk: {kinds:?})")));
                } else if let Some(d) = diff(&o, &o2) {
                    bad.push((format!("trace-changed-by-junk:{}", kind_names(&kinds)), format!("junk {kinds:?}: {d}")));
                }
                if first {
                    // determinism of the differential itself
                    let o3 = run_once(t, *delta, true, Chooser::lenient(&ch.choices, max_points));
                    assert!(diff(&o2, &o3).is_none(), "MACHINERY: nondeterministic replay (C03)");
                    local.replays += 1;
                    if local.samples.is_empty() && ti % 7 == 0 {
                        local.samples.push(json!({"cell": t.cell.name(), "topo": t.topo, "trace_id": t.params.trace_id, "choices": ch.choices, "junk": format!("{kinds:?}")}));
                    }
                    first = false;
                }
            }
            for (key, detail) in bad {
                let key = format!("{key}@{}", t.cell.name().split('/').take(3).collect::<Vec<_>>().join("/"));
                let mut rj = c01::replay_json("C03", t, &ch.choices);
                rj["sibling_delta"] = json!(delta);
                let f = Finding { key: key.clone(), detail: format!("[{} topo={} trace_id={} sibling_delta={} init_seq={}] {detail}", t.cell.name(), t.topo, t.params.trace_id, delta, t.params.initial_sequence), replay: rj, weight: (ch.deviations(), ch.choices.len()), count: 1 };
                match local.findings.get_mut(&key) {
                    Some(old) => {
                        old.count += 1;
                        if f.weight < old.weight {
                            let c = old.count;
                            *old = f;
                            old.count = c;
                        }
                    }
                    None => {
                        local.findings.insert(key, f);
                    }
                }
            }
            local.findings.values().map(|f| f.count).sum::<u64>() < 300
        });
        let mut a = agg.lock().unwrap();
        a.stats.merge(&stats);
        a.digests += digests.len() as u64;
        a.junk_runs += local.junk_runs;
        a.replays += local.replays;
        for (k, v) in local.by_kind {
            *a.by_kind.entry(k).or_default() += v;
        }
        if a.samples.len() < 4 {
            a.samples.extend(local.samples);
        }
        for (_, f) in local.findings {
            match a.findings.get_mut(&f.key) {
                Some(old) => {
                    old.count += f.count;
                    if f.weight < old.weight {
                        let c = old.count;
                        *old = f;
                        old.count = c;
                    }
                }
                None => {
                    a.findings.insert(f.key.clone(), f);
                }
            }
        }
    });
    let mut a = agg.into_inner().unwrap();
    a.findings.extend(cli_findings);
    rep.merge_findings(a.findings);
    rep.observe("identifiers_assigned_by_the_command_line", json!(cli_assignments));
    rep.set("states", json!(a.stats.states));
    rep.set("transitions", json!(a.stats.transitions));
    rep.set("traces_validated_against_impl", json!(a.stats.executions + a.junk_runs));
    rep.set("evaluations", json!(a.stats.executions));
    rep.set("distinct_nontrivial", json!(a.junk_runs));
    rep.set("distinct_observation_digests", json!(a.digests));
    rep.set("executions_by_deviations", json!(a.stats.executions_by_dev));
    rep.set("tasks", json!(tasks.len()));
    rep.set("bound_completed", json!(bound));
    rep.set("horizon_hits", json!(a.stats.horizon_hits));
    rep.set("determinism_replays", json!(a.replays));
    rep.observe("junk_deliveries_by_kind", json!(a.by_kind));
    rep.set("rule", json!(format!("14 base cells x topologies {{L2,L3,silent-mid}} (+ every privileged cell with a pinned destination port or both ports pinned, incl. a foreign response differing in the second pinned port only) x CLI-assigned identifier pairs (asked of the real start_tracers for process ids {{0,1,2,0x1234,65533,65534}} x 3 targets - they must be pairwise distinct -, + the fixed pairs (1,0),(0,1),(2,1),(3,2),(65534,65533),(65533,65534)), 3 rounds: all executions with <= {bound} deviations where a deviation is a delay, a loss or the injection of one junk datagram (duplicate of a delivered response; a second answer from the target's address to a probe a router has already answered; late response to a previous-round probe; sibling tracer's Time Exceeded / Echo Reply; other target - reported by a router or by this tracer's own target -; other fixed port; never-sent sequences: next unissued, round_start-1, +300, +511, +512; + per cell a path with transient socket failures offered at every send/bind/connect, where the junk names the sequence of the Failed / Skipped slot); plus 254-probe rounds across sequence wrap-around with <= 1 deviation. Oracle: re-run with every junk datagram replaced by an ICMP Echo Request (discarded at the lowest level) - published rounds, timestamps and final snapshot must be identical. distinct_nontrivial = executions containing >= 1 junk delivery (each compared with its inert twin)")));
    for s in a.samples {
        rep.sample(s);
    }
    rep.assumptions = vec![c01::ASSUME.into(), "'alone' is compared via inert replacement because any inbound datagram wakes the loop (DESIGN.md 5.2)".into()];
    rep.finish()
}

fn kind_names(kinds: &[JunkKind]) -> String {
    let mut v: Vec<String> = kinds
        .iter()
        .map(|k| match k {
            JunkKind::NeverSent(_) | JunkKind::NextUnissued | JunkKind::Unsent => "NeverSent".to_string(),
            other => format!("{other:?}").split('(').next().unwrap().to_string(),
        })
        .collect();
    v.sort();
    v.dedup();
    v.join("+")
}

pub fn replay(path: &str) -> i32 {
    let s = std::fs::read_to_string(path).expect("MACHINERY: cannot read replay file");
    let v: Value = serde_json::from_str(&s).expect("MACHINERY: replay JSON");
    let r = if v.get("replay").is_some() { &v["replay"] } else { &v };
    let cell = drive::all_cells()[r["cell_index"].as_u64().expect("cell_index") as usize];
    let topo_name = r["topo"].as_str().expect("topo").to_string();
    let topo: &'static str = drive::TOPO_NAMES.iter().find(|t| **t == topo_name).copied().expect("MACHINERY: topo");
    let params = c01::params_from_json(&r["params"]);
    let delta = r["sibling_delta"].as_u64().unwrap_or(1) as u16;
    let choices: Vec<u16> = r["choices"].as_array().expect("choices").iter().map(|c| c.as_u64().unwrap() as u16).collect();
    let t = Task { cell, topo, params, bound: 0 };
    let o = run_once(&t, delta, false, Chooser::new(&choices, 100_000));
    let o2 = run_once(&t, delta, true, Chooser::lenient(&choices, 100_000));
    println!("replay C03: cell={} topo={} trace_id={} choices={choices:?}", cell.name(), topo, t.params.trace_id);
    for d in &o.world.deliveries {
        println!("  delivered resp#{} for sent#{} t={} round={} junk={:?}", d.resp, d.for_sent, d.time_ns, d.round, d.junk);
    }
    for (name, x) in [("with junk", &o), ("junk replaced by inert datagram", &o2)] {
        println!("--- {name}: result {:?}", x.result);
        for (i, p) in x.world.publishes.iter().enumerate() {
            println!("  round {i} t={} largest_ttl={} target_found={}", p.time_ns, p.largest_ttl, p.target_found);
            for s in &p.probes {
                println!("    {s:?}");
            }
        }
    }
    match diff(&o, &o2) {
        None if o.panic.is_none() => {
            println!("replay: property held");
            0
        }
        d => {
            println!("DISCREPANCY: {d:?} panic={:?}", o.panic.map(|p| p.message));
            println!("VIOLATION property=C03 replay={path}");
            1
        }
    }
}
