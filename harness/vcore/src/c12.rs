//! C12 — packet field accessors are exact, independent and RFC-positioned.
//! Exhaustive sweep: field x value x background, against a hand-written RFC position table.

use crate::mc;
use crate::pkt::{self, Field};
use crate::report::{Args, Finding, Report, Tier};
use serde_json::json;
use std::collections::BTreeMap;
use std::sync::Mutex;

fn args_for(f: &Field, tier: Tier) -> Vec<u128> {
    let ab = f.arg_bits;
    let full_bits = if tier == Tier::Thorough { 28 } else { 20 };
    let mut v: Vec<u128> = vec![];
    if ab <= full_bits {
        v.extend(0..(1u128 << ab));
        return v;
    }
    let max = if ab == 128 { u128::MAX } else { (1u128 << ab) - 1 };
    // full domain of the field itself when it is small enough (e.g. 20-bit labels in thorough)
    if f.width <= full_bits {
        v.extend(0..(1u128 << f.width));
    } else {
        v.extend(0..(1u128 << 8));
    }
    v.push(max);
    for i in 0..ab {
        v.push(1u128 << i); // one-hot
        v.push(max ^ (1u128 << i)); // one-cold
        for j in (i + 1)..ab {
            v.push((1u128 << i) | (1u128 << j)); // two-hot
        }
    }
    // boundaries around byte edges
    for k in (8..ab).step_by(8) {
        let b = 1u128 << k;
        v.push(b - 1);
        v.push(b);
        v.push(b + 1);
    }
    v.sort_unstable();
    v.dedup();
    v
}

fn backgrounds(len: usize, tier: Tier, header_bits: usize) -> Vec<Vec<u8>> {
    // four uniform fills and two non-uniform ones (every octet - and every nibble position - differs
    // from its neighbours, so bits copied from the wrong octet show)
    let ramp: Vec<u8> = (0..len).map(|i| (i as u8).wrapping_mul(29).wrapping_add(7) ^ ((i as u8) << 4)).collect();
    let mut v = vec![vec![0u8; len], vec![0xffu8; len], vec![0xaau8; len], vec![0x55u8; len], ramp.iter().map(|b| !b).collect(), ramp];
    if tier == Tier::Thorough {
        for bit in 0..header_bits {
            let mut z = vec![0u8; len];
            z[bit / 8] |= 0x80 >> (bit % 8);
            v.push(z);
            let mut o = vec![0xffu8; len];
            o[bit / 8] &= !(0x80 >> (bit % 8));
            v.push(o);
        }
    }
    v
}

pub fn replay(path: &str) -> i32 {
    let s = std::fs::read_to_string(path).expect("MACHINERY: cannot read replay file");
    let v: serde_json::Value = serde_json::from_str(&s).expect("MACHINERY: replay JSON");
    let r = if v.get("replay").is_some() { &v["replay"] } else { &v };
    if r.get("field").is_none() {
        let len = r["len"].as_u64().unwrap() as usize;
        let name = r["view"].as_str().unwrap();
        let bad: Vec<_> = pkt::ctor_results(len).into_iter().filter(|(n, min, a, b)| *n == name && (*a != (len >= *min) || *b != (len >= *min))).collect();
        println!("constructors of {name} on {len} octets: {bad:?}");
        if bad.is_empty() {
            println!("replay: property held");
            return 0;
        }
        println!("VIOLATION property=C12 replay={path}");
        return 1;
    }
    let fields = pkt::fields();
    let f = fields.iter().find(|f| f.pkt == r["packet"].as_str().unwrap() && f.name == r["field"].as_str().unwrap()).expect("MACHINERY: field");
    let arg = u128::from_str_radix(r["arg"].as_str().unwrap().trim_start_matches("0x"), 16).unwrap();
    let bg: Vec<u8> = r["background"].as_array().unwrap().iter().map(|b| b.as_u64().unwrap() as u8).collect();
    let mask: u128 = if f.width == 128 { u128::MAX } else { (1u128 << f.width) - 1 };
    let mut want = bg.clone();
    pkt::put_bits(&mut want, f.bit_off, f.width, arg & mask);
    let mut buf = bg.clone();
    let got = mc::catch(|| {
        (f.set)(&mut buf, arg);
        (f.get)(&buf)
    });
    println!("{}.set_{}({arg:#x}) on {bg:02x?}\n  buffer   {buf:02x?}\n  expected {want:02x?}\n  get -> {got:?} (expected {:#x})", f.pkt, f.name, arg & mask);
    if buf == want && matches!(got, Ok(g) if g == arg & mask) {
        println!("replay: property held");
        0
    } else {
        println!("VIOLATION property=C12 replay={path}");
        1
    }
}

pub fn run(args: &Args) -> i32 {
    if let Some(path) = &args.replay {
        return replay(path);
    }
    let tier = args.tier;
    let mut rep = Report::new("C12", tier, "exploration");
    let fields = pkt::fields();
    let findings: Mutex<BTreeMap<String, Finding>> = Mutex::new(BTreeMap::new());
    let totals = Mutex::new((0u64, 0u64, vec![]));
    mc::par_for(fields.len(), mc::workers(), |fi| {
        let f = &fields[fi];
        let len = f.min_len + 3;
        let vals = args_for(f, tier);
        let bgs = backgrounds(len, tier, f.min_len * 8);
        // with the one-hot/one-cold backgrounds only the boundary arguments are used
        let boundary: Vec<u128> = {
            let max = if f.arg_bits == 128 { u128::MAX } else { (1u128 << f.arg_bits) - 1 };
            let fmax = if f.width == 128 { u128::MAX } else { (1u128 << f.width) - 1 };
            let mut b = vec![0, 1, fmax, fmax >> 1, (fmax >> 1) + 1, max, max ^ fmax, 0x5555_5555_5555_5555_5555_5555_5555_5555 & max, 0xaaaa_aaaa_aaaa_aaaa_aaaa_aaaa_aaaa_aaaa & max];
            b.sort_unstable();
            b.dedup();
            b
        };
        let mut evals = 0u64;
        let mut nontrivial = 0u64;
        let mut local: BTreeMap<String, Finding> = BTreeMap::new();
        let mask: u128 = if f.width == 128 { u128::MAX } else { (1u128 << f.width) - 1 };
        for (bi, bg) in bgs.iter().enumerate() {
            let vs: &[u128] = if bi < 6 { &vals } else { &boundary };
            for &a in vs {
                let mut buf = bg.clone();
                let want_val = a & mask;
                let mut want = bg.clone();
                pkt::put_bits(&mut want, f.bit_off, f.width, want_val);
                evals += 1;
                if want != *bg || a > mask {
                    nontrivial += 1;
                }
                let r = mc::catch(|| {
                    (f.set)(&mut buf, a);
                    (f.get)(&buf)
                });
                let problem = match r {
                    Err(p) => Some((p.key(), format!("panic: {} at {}:{}", p.message, p.file, p.line))),
                    Ok(got) => {
                        if buf != want {
                            let diff: Vec<String> = (0..len)
                                .filter(|i| buf[*i] != want[*i])
                                .map(|i| format!("byte {i}: got {:#04x} want {:#04x}", buf[i], want[i]))
                                .collect();
                            let outside = (0..len * 8).any(|bit| {
                                let inside = bit >= f.bit_off && bit < f.bit_off + f.width;
                                let m = 0x80u8 >> (bit % 8);
                                !inside && (buf[bit / 8] & m) != (bg[bit / 8] & m)
                            });
                            let kind = if outside { "clobbers-neighbour-bits" } else { "wrong-bits-in-field" };
                            Some((format!("{kind}:{}.{}", f.pkt, f.name), format!("set_{}({a:#x}) on background {:02x?}: {}", f.name, &bg[..bg.len().min(8)], diff.join(", "))))
                        } else if got != want_val {
                            Some((format!("get-mismatch:{}.{}", f.pkt, f.name), format!("set_{}({a:#x}) then get returned {got:#x}, expected {want_val:#x}", f.name)))
                        } else {
                            None
                        }
                    }
                };
                if let Some((key, detail)) = problem {
                    let e = local.entry(key.clone()).or_insert_with(|| Finding {
                        key,
                        detail,
                        replay: json!({"check": "C12", "packet": f.pkt, "field": f.name, "arg": format!("{a:#x}"), "background": bg}),
                        weight: (0, 0),
                        count: 0,
                    });
                    e.count += 1;
                }
            }
        }
        let mut t = totals.lock().unwrap();
        t.0 += evals;
        t.1 += nontrivial;
        if t.2.len() < 3 {
            t.2.push(json!({"packet": f.pkt, "field": f.name, "bit_offset": f.bit_off, "width": f.width, "arg_bits": f.arg_bits, "values": vals.len(), "backgrounds": bgs.len()}));
        }
        drop(t);
        let mut g = findings.lock().unwrap();
        for (k, f2) in local {
            match g.get_mut(&k) {
                Some(o) => o.count += f2.count,
                None => {
                    g.insert(k, f2);
                }
            }
        }
    });
    // variable-position regions (options, payload): RFC position for every header length
    let mut region_checks = 0u64;
    for (key, detail) in pkt::region_results(&mut region_checks) {
        findings.lock().unwrap().entry(key.clone()).or_insert_with(|| Finding { key, detail, replay: json!({"check": "C12", "part": "regions"}), weight: (0, 0), count: 1 });
    }
    // construction succeeds exactly for buffers of at least the minimum header size (new and new_view)
    let mut ctor_checks = 0u64;
    for l in 0..=48usize {
        for (name, min, new_ok, view_ok) in pkt::ctor_results(l) {
            ctor_checks += 2;
            for (which, ok) in [("new", new_ok), ("new_view", view_ok)] {
                if ok != (l >= min) {
                    let key = format!("ctor-min-size:{name}::{which}");
                    findings.lock().unwrap().entry(key.clone()).or_insert_with(|| Finding {
                        key,
                        detail: format!("{name}::{which} on {l} octets returned ok={ok}; RFC minimum header size is {min}"),
                        replay: json!({"check": "C12", "view": name, "len": l}),
                        weight: (0, 0),
                        count: 1,
                    });
                }
            }
        }
    }
    let (evals, nontrivial, samples) = totals.into_inner().unwrap();
    rep.merge_findings(findings.into_inner().unwrap());
    rep.set("evaluations", json!(evals + ctor_checks + region_checks));
    rep.set("region_checks", json!(region_checks));
    rep.set("distinct_nontrivial", json!(nontrivial));
    rep.set("fields", json!(fields.len()));
    rep.set("rule", json!("every field of the RFC position table x (full argument domain for argument types <= 16 bits [20 in thorough]; one-hot, one-cold, two-hot, byte boundaries and the low range for wider ones) x backgrounds {0x00,0xFF,0xAA,0x55} (+ every one-hot/one-cold header bit with boundary arguments in thorough); a case is non-trivial when the write changes the buffer or the argument exceeds the field width; oracle: whole buffer equals background with exactly the field's bits replaced (network order) and get(set(v)) = v mod 2^w Backgrounds: four uniform fills and two non-uniform ones (each octet differs from its neighbours). Regions: IPv4 options/payload for every header length 5..15, TCP options/payload for every data offset 5..15, IPv6/UDP/ICMP echo payloads, extension object payload: read accessors address exactly the RFC octets, set_payload writes there and nowhere else, views do not modify the buffer."));
    for s in samples {
        rep.sample(s);
    }
    rep.assumptions = vec!["RFC field position table in harness/vcore/src/pkt.rs (hand-written from RFC 791, 8200, 792, 4443, 768, 9293/3540, 4884, 4950)".into()];
    rep.finish()
}
