//! Trace-level logging as a configuration dimension.
//!
//! The code under test is instrumented with `tracing` (`#[instrument(level = "trace")]`,
//! `tracing::debug!(?x)`): with a subscriber installed - `trip --verbose --log-filter trace` - every
//! argument of an instrumented function is formatted with its `Debug` impl, so those impls run on
//! whatever the network handed in.  This module installs one process-wide subscriber that is
//! switched on and off per thread; when on it formats every field of every span and event into a
//! byte counter (the text itself is discarded).
//!
//! Interest is reported as "sometimes" so that the per-thread switch is consulted at every
//! callsite instead of a process-wide cached answer.

use std::cell::Cell;
use std::fmt::Write as _;
use std::sync::atomic::{AtomicU64, Ordering};
use std::sync::Once;
use tracing::field::{Field, Visit};
use tracing::span::{Attributes, Id, Record};
use tracing::subscriber::Interest;
use tracing::{Event, Metadata, Subscriber};

thread_local! {
    static ON: Cell<bool> = const { Cell::new(false) };
}

static FORMATTED: AtomicU64 = AtomicU64::new(0);
static SPANS: AtomicU64 = AtomicU64::new(0);
static INIT: Once = Once::new();

struct Sink(u64);

impl Visit for Sink {
    fn record_debug(&mut self, _field: &Field, value: &dyn std::fmt::Debug) {
        let mut s = Counter(0);
        let _ = write!(s, "{value:?}");
        self.0 += s.0;
    }
}

struct Counter(u64);

impl std::fmt::Write for Counter {
    fn write_str(&mut self, s: &str) -> std::fmt::Result {
        self.0 += s.len() as u64;
        Ok(())
    }
}

struct VerifSubscriber;

impl Subscriber for VerifSubscriber {
    fn register_callsite(&self, _metadata: &'static Metadata<'static>) -> Interest {
        Interest::sometimes()
    }
    fn enabled(&self, _metadata: &Metadata<'_>) -> bool {
        ON.with(Cell::get)
    }
    fn max_level_hint(&self) -> Option<tracing::level_filters::LevelFilter> {
        Some(tracing::level_filters::LevelFilter::TRACE)
    }
    fn new_span(&self, span: &Attributes<'_>) -> Id {
        let mut sink = Sink(0);
        span.record(&mut sink);
        FORMATTED.fetch_add(sink.0, Ordering::Relaxed);
        Id::from_u64(SPANS.fetch_add(1, Ordering::Relaxed) + 1)
    }
    fn record(&self, _span: &Id, values: &Record<'_>) {
        let mut sink = Sink(0);
        values.record(&mut sink);
        FORMATTED.fetch_add(sink.0, Ordering::Relaxed);
    }
    fn record_follows_from(&self, _span: &Id, _follows: &Id) {}
    fn event(&self, event: &Event<'_>) {
        let mut sink = Sink(0);
        event.record(&mut sink);
        FORMATTED.fetch_add(sink.0, Ordering::Relaxed);
    }
    fn enter(&self, _span: &Id) {}
    fn exit(&self, _span: &Id) {}
}

/// Install the subscriber (once per process; a no-op afterwards).
pub fn install() {
    INIT.call_once(|| {
        tracing::subscriber::set_global_default(VerifSubscriber).expect("MACHINERY: a tracing subscriber is already installed");
    });
}

/// Switch trace-level logging on or off for the calling thread; returns the previous setting.
pub fn set(on: bool) -> bool {
    if on {
        install();
    }
    ON.with(|c| c.replace(on))
}

/// (spans created, octets of Debug output formatted) so far in this process.
pub fn totals() -> (u64, u64) {
    (SPANS.load(Ordering::Relaxed), FORMATTED.load(Ordering::Relaxed))
}

/// Self-test: with the switch on, an instrumented call formats its arguments; with it off, not.
pub fn self_test() -> Result<(), String> {
    #[tracing::instrument(level = "trace")]
    fn probe(x: &Loud) -> u8 {
        x.0
    }
    #[derive(Clone, Copy)]
    struct Loud(u8);
    thread_local! { static SEEN: Cell<u32> = const { Cell::new(0) }; }
    impl std::fmt::Debug for Loud {
        fn fmt(&self, f: &mut std::fmt::Formatter<'_>) -> std::fmt::Result {
            SEEN.with(|s| s.set(s.get() + 1));
            write!(f, "Loud({})", self.0)
        }
    }
    let prev = set(true);
    let before = SEEN.with(Cell::get);
    probe(&Loud(7));
    let on_calls = SEEN.with(Cell::get) - before;
    set(false);
    let before = SEEN.with(Cell::get);
    probe(&Loud(7));
    let off_calls = SEEN.with(Cell::get) - before;
    set(prev);
    if on_calls == 0 {
        return Err("the Debug impl of an instrumented argument did not run with logging on".into());
    }
    if off_calls != 0 {
        return Err("the Debug impl of an instrumented argument ran with logging off".into());
    }
    Ok(())
}
