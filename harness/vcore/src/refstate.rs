//! Reference models for the state layer (C05, C10, C15): a straightforward recomputation of
//! per-hop statistics, hop table bounds and flow registry from the plain list of rounds.
//! Written from the documentation of `state.rs` / `flows.rs` / `config.rs`; validated at start-up
//! against the expected values of the repository's own scenario files.

use std::collections::BTreeMap;
use std::net::IpAddr;
use std::time::Duration;
use trippy_core::{Hop, IcmpPacketType, NatStatus, ProbeStatus, State};

#[derive(Debug, Clone)]
pub struct RoundRec {
    pub probes: Vec<ProbeStatus>,
    pub largest_ttl: u8,
}

#[derive(Debug, Clone, Default)]
pub struct RefHop {
    pub ttl: u8,
    pub sent: usize,
    pub recv: usize,
    pub failed: usize,
    pub forward_loss: usize,
    pub backward_loss: usize,
    /// round-trip times of completed probes, oldest first
    pub rtts: Vec<Duration>,
    /// one entry per probe (0 for awaited / failed), oldest first
    pub samples: Vec<Duration>,
    pub addrs: Vec<(IpAddr, usize)>,
    pub last_src: u16,
    pub last_dest: u16,
    pub last_seq: u16,
    pub last_icmp: Option<IcmpPacketType>,
    pub tos: Option<u8>,
    pub nat: Option<NatStatus>,
    pub has_ext: Option<bool>,
}

#[derive(Debug, Clone, Default)]
pub struct RefFlowStats {
    pub hops: BTreeMap<u8, RefHop>,
    pub lowest_ttl: u8,
    pub highest_ttl: u8,
    pub highest_ttl_for_round: u8,
    pub round_count: usize,
    pub max_round: Option<usize>,
}

fn ttl_of(p: &ProbeStatus) -> Option<u8> {
    match p {
        ProbeStatus::Complete(c) => Some(c.ttl.0),
        ProbeStatus::Awaited(a) => Some(a.ttl.0),
        ProbeStatus::Failed(f) => Some(f.ttl.0),
        _ => None,
    }
}

/// Recompute a flow's statistics from exactly the rounds attributed to it.
pub fn aggregate(rounds: &[&RoundRec]) -> RefFlowStats {
    let mut f = RefFlowStats::default();
    for r in rounds {
        f.round_count += 1;
        f.highest_ttl = f.highest_ttl.max(r.largest_ttl);
        f.highest_ttl_for_round = r.largest_ttl;
        let mut prev_checksum: Option<u16> = None;
        let mut forward_seen = false;
        for (i, p) in r.probes.iter().enumerate() {
            let Some(ttl) = ttl_of(p) else { continue };
            f.lowest_ttl = if f.lowest_ttl == 0 { ttl } else { f.lowest_ttl.min(ttl) };
            let h = f.hops.entry(ttl).or_default();
            h.ttl = ttl;
            h.sent += 1;
            match p {
                ProbeStatus::Complete(c) => {
                    f.max_round = Some(f.max_round.map_or(c.round.0, |m| m.max(c.round.0)));
                    h.recv += 1;
                    let d = c.received.duration_since(c.sent).unwrap_or_default();
                    h.rtts.push(d);
                    h.samples.push(d);
                    match h.addrs.iter_mut().find(|(a, _)| *a == c.host) {
                        Some(e) => e.1 += 1,
                        None => h.addrs.push((c.host, 1)),
                    }
                    h.last_src = c.src_port.0;
                    h.last_dest = c.dest_port.0;
                    h.last_seq = c.sequence.0;
                    h.last_icmp = Some(c.icmp_packet_type);
                    h.tos = c.tos.map(|t| t.0);
                    h.has_ext = Some(c.extensions.is_some());
                    if let (Some(e), Some(a)) = (c.expected_udp_checksum, c.actual_udp_checksum) {
                        let detected = match prev_checksum {
                            Some(pc) => pc != a.0,
                            None => e.0 != a.0,
                        };
                        h.nat = Some(if detected { NatStatus::Detected } else { NatStatus::NotDetected });
                        prev_checksum = Some(a.0);
                    }
                }
                ProbeStatus::Awaited(a) => {
                    f.max_round = Some(f.max_round.map_or(a.round.0, |m| m.max(a.round.0)));
                    h.samples.push(Duration::ZERO);
                    h.last_src = a.src_port.0;
                    h.last_dest = a.dest_port.0;
                    h.last_seq = a.sequence.0;
                    // forward / backward loss as documented
                    if forward_seen {
                        h.backward_loss += 1;
                    } else {
                        let first_later = r.probes.iter().position(|q| ttl_of(q).is_some_and(|t| t > ttl));
                        let is_forward = first_later.is_some_and(|j| r.probes[j..].iter().all(|q| matches!(q, ProbeStatus::Awaited(_) | ProbeStatus::Skipped)));
                        if is_forward {
                            h.forward_loss += 1;
                            forward_seen = true;
                        }
                    }
                    let _ = i;
                }
                ProbeStatus::Failed(fl) => {
                    f.max_round = Some(f.max_round.map_or(fl.round.0, |m| m.max(fl.round.0)));
                    h.failed += 1;
                    h.samples.push(Duration::ZERO);
                    h.last_src = fl.src_port.0;
                    h.last_dest = fl.dest_port.0;
                    h.last_seq = fl.sequence.0;
                }
                _ => {}
            }
        }
    }
    f
}

fn ms(d: Duration) -> f64 {
    d.as_secs_f64() * 1000.0
}

fn close(a: f64, b: f64) -> bool {
    let tol = 1e-9 * a.abs().max(b.abs()) + 3e-6; // relative 1e-9 + 3 ns (Duration rounding of jitter)
    (a - b).abs() <= tol
}

fn close_opt(a: Option<f64>, b: Option<f64>) -> bool {
    match (a, b) {
        (None, None) => true,
        (Some(x), Some(y)) => close(x, y),
        _ => false,
    }
}

/// Compare one hop of the implementation with the reference; returns discrepancy names.
pub fn compare_hop(h: &Hop, r: &RefHop, max_samples: usize) -> Vec<(String, String)> {
    let mut bad = vec![];
    let mut chk = |name: &str, ok: bool, detail: String| {
        if !ok {
            bad.push((name.to_string(), detail));
        }
    };
    chk("ttl", h.ttl() == r.ttl, format!("{} vs {}", h.ttl(), r.ttl));
    chk("total_sent", h.total_sent() == r.sent, format!("{} vs {}", h.total_sent(), r.sent));
    chk("total_recv", h.total_recv() == r.recv, format!("{} vs {}", h.total_recv(), r.recv));
    chk("total_failed", h.total_failed() == r.failed, format!("{} vs {}", h.total_failed(), r.failed));
    chk("forward_loss", h.total_forward_loss() == r.forward_loss, format!("{} vs {}", h.total_forward_loss(), r.forward_loss));
    chk("backward_loss", h.total_backward_loss() == r.backward_loss, format!("{} vs {}", h.total_backward_loss(), r.backward_loss));
    let loss = if r.sent > 0 { (r.sent - r.recv) as f64 / r.sent as f64 * 100.0 } else { 0.0 };
    chk("loss_pct", close(h.loss_pct(), loss), format!("{} vs {loss}", h.loss_pct()));
    let fl = if r.sent > 0 { r.forward_loss as f64 / r.sent as f64 * 100.0 } else { 0.0 };
    let bl = if r.sent > 0 { r.backward_loss as f64 / r.sent as f64 * 100.0 } else { 0.0 };
    chk("forward_loss_pct", close(h.forward_loss_pct(), fl), format!("{} vs {fl}", h.forward_loss_pct()));
    chk("backward_loss_pct", close(h.backward_loss_pct(), bl), format!("{} vs {bl}", h.backward_loss_pct()));
    let rt: Vec<f64> = r.rtts.iter().map(|d| ms(*d)).collect();
    let last = rt.last().copied();
    let best = rt.iter().copied().fold(None, |m: Option<f64>, x| Some(m.map_or(x, |m| m.min(x))));
    let worst = rt.iter().copied().fold(None, |m: Option<f64>, x| Some(m.map_or(x, |m| m.max(x))));
    chk("last_ms", close_opt(h.last_ms(), last), format!("{:?} vs {last:?}", h.last_ms()));
    chk("best_ms", close_opt(h.best_ms(), best), format!("{:?} vs {best:?}", h.best_ms()));
    chk("worst_ms", close_opt(h.worst_ms(), worst), format!("{:?} vs {worst:?}", h.worst_ms()));
    let n = rt.len();
    let avg = if n > 0 { rt.iter().sum::<f64>() / n as f64 } else { 0.0 };
    chk("avg_ms", close(h.avg_ms(), avg), format!("{} vs {avg}", h.avg_ms()));
    // two-pass sample standard deviation
    let sd = if n > 1 { (rt.iter().map(|x| (x - avg) * (x - avg)).sum::<f64>() / (n - 1) as f64).sqrt() } else { 0.0 };
    chk("stddev_ms", (h.stddev_ms() - sd).abs() <= 1e-6 * sd.max(1.0), format!("{} vs {sd}", h.stddev_ms()));
    // jitter sequence: the first sample is measured against zero (as the maintainers' scenario
    // files pin it), then |rtt_i - rtt_{i-1}|
    let mut jit: Vec<f64> = vec![];
    for (i, x) in rt.iter().enumerate() {
        jit.push(if i == 0 { *x } else { (x - rt[i - 1]).abs() });
    }
    let jitter = if n > 1 { jit.last().copied() } else { None };
    chk("jitter_ms", close_opt(h.jitter_ms(), jitter), format!("{:?} vs {jitter:?}", h.jitter_ms()));
    let javg = if n > 0 { jit.iter().sum::<f64>() / n as f64 } else { 0.0 };
    chk("javg_ms", (h.javg_ms() - javg).abs() <= 1e-9 * javg.abs().max(1.0) * (n.max(1) as f64) + 1e-9, format!("{} vs {javg}", h.javg_ms()));
    let jmax = jit.iter().copied().fold(None, |m: Option<f64>, x| Some(m.map_or(x, |m| m.max(x))));
    chk("jmax_ms", close_opt(h.jmax_ms(), jmax), format!("{:?} vs {jmax:?}", h.jmax_ms()));
    let mut jinta = 0.0f64;
    for j in &jit {
        jinta += j.max(0.5) - (jinta + 8.0) / 16.0;
    }
    chk("jinta", (h.jinta() - jinta).abs() <= 1e-9 * jinta.abs().max(1.0) * (n.max(1) as f64) + 1e-9, format!("{} vs {jinta}", h.jinta()));
    // addresses
    let got: Vec<(IpAddr, usize)> = h.addrs_with_counts().map(|(a, c)| (*a, *c)).collect();
    chk("addrs", got == r.addrs, format!("{got:?} vs {:?}", r.addrs));
    chk("addr_count", h.addr_count() == r.addrs.len(), format!("{}", h.addr_count()));
    chk("last_src_port", h.last_src_port() == r.last_src, format!("{} vs {}", h.last_src_port(), r.last_src));
    chk("last_dest_port", h.last_dest_port() == r.last_dest, format!("{} vs {}", h.last_dest_port(), r.last_dest));
    chk("last_sequence", h.last_sequence() == r.last_seq, format!("{} vs {}", h.last_sequence(), r.last_seq));
    chk("last_icmp_packet_type", h.last_icmp_packet_type() == r.last_icmp, format!("{:?} vs {:?}", h.last_icmp_packet_type(), r.last_icmp));
    chk("tos", h.tos().map(|t| t.0) == r.tos, format!("{:?} vs {:?}", h.tos(), r.tos));
    chk("nat_status", h.last_nat_status() == r.nat.unwrap_or(NatStatus::NotApplicable), format!("{:?} vs {:?}", h.last_nat_status(), r.nat));
    // bounded newest-first history
    let want: Vec<Duration> = r.samples.iter().rev().take(max_samples).copied().collect();
    chk("samples", h.samples() == want.as_slice(), format!("{:?} vs {want:?}", h.samples()));
    chk("samples_limit", h.samples().len() <= max_samples, format!("{} > {max_samples}", h.samples().len()));
    // the listed inequalities, asserted separately
    chk("ineq:recv+failed<=sent", h.total_recv() + h.total_failed() <= h.total_sent(), String::new());
    chk("ineq:addr-counts-sum-to-recv", h.addrs_with_counts().map(|(_, c)| *c).sum::<usize>() == h.total_recv(), String::new());
    if let (Some(b), Some(w)) = (h.best_ms(), h.worst_ms()) {
        chk("ineq:best<=avg<=worst", b <= h.avg_ms() + 1e-9 * w.max(1.0) && h.avg_ms() <= w + 1e-9 * w.max(1.0), format!("{b} {} {w}", h.avg_ms()));
    }
    chk("ineq:0<=loss<=100", (0.0..=100.0).contains(&h.loss_pct()), format!("{}", h.loss_pct()));
    chk(
        "ineq:floss+bloss<=sent-recv-failed",
        h.total_forward_loss() + h.total_backward_loss() + h.total_recv() + h.total_failed() <= h.total_sent(),
        format!("{}+{} vs {}-{}-{}", h.total_forward_loss(), h.total_backward_loss(), h.total_sent(), h.total_recv(), h.total_failed()),
    );
    chk("extensions", h.extensions().is_some() == r.has_ext.unwrap_or(false), format!("{:?}", h.extensions()));
    bad
}

// ---------------------------------------------------------------------------------------------
// Flow registry reference (C15)

#[derive(Debug, Clone, Default)]
pub struct RefRegistry {
    /// flow id i+1 -> entries (None = unknown)
    pub flows: Vec<Vec<Option<IpAddr>>>,
    /// rounds (indices into the history) attributed to each flow
    pub rounds: Vec<Vec<usize>>,
}

/// The flow a round describes: position = index among the probes that were put on the wire and
/// not failed (as documented in `State::update_from_round`), truncated to `largest_ttl` entries.
pub fn round_flow(r: &RoundRec) -> Vec<Option<IpAddr>> {
    r.probes
        .iter()
        .filter_map(|p| match p {
            ProbeStatus::Awaited(_) => Some(None),
            ProbeStatus::Complete(c) => Some(Some(c.host)),
            _ => None,
        })
        .take(usize::from(r.largest_ttl))
        .collect()
}

impl RefRegistry {
    /// Register per the documented contract: first matching flow wins, merge gains information,
    /// at most `max_flows` flows; when the cap is reached matching flows are still updated.
    /// Returns the flow id the round is attributed to (None = none).
    pub fn register(&mut self, flow: &[Option<IpAddr>], round_index: usize, max_flows: usize) -> Option<u64> {
        for (i, e) in self.flows.iter_mut().enumerate() {
            let conflict = e.iter().zip(flow).any(|(a, b)| matches!((a, b), (Some(x), Some(y)) if x != y));
            if !conflict {
                for (k, b) in flow.iter().enumerate() {
                    if k < e.len() {
                        if e[k].is_none() {
                            e[k] = *b;
                        }
                    } else {
                        e.push(*b);
                    }
                }
                self.rounds[i].push(round_index);
                return Some(i as u64 + 1);
            }
        }
        if self.flows.len() < max_flows {
            self.flows.push(flow.to_vec());
            self.rounds.push(vec![round_index]);
            Some(self.flows.len() as u64)
        } else {
            None
        }
    }
}

/// Canonical key of the observable state: every getter of every hop of every flow.
pub fn state_key(st: &State) -> u64 {
    use std::hash::{Hash, Hasher};
    let mut h = std::collections::hash_map::DefaultHasher::new();
    let mut ids: Vec<u64> = vec![0];
    ids.extend(st.flows().iter().map(|(_, id)| id.0));
    for id in ids {
        let fid = trippy_core::FlowId(id);
        id.hash(&mut h);
        st.round_count(fid).hash(&mut h);
        st.round(fid).hash(&mut h);
        for hop in st.hops_for_flow(fid) {
            hop.ttl().hash(&mut h);
            hop.total_sent().hash(&mut h);
            hop.total_recv().hash(&mut h);
            hop.total_failed().hash(&mut h);
            hop.total_forward_loss().hash(&mut h);
            hop.total_backward_loss().hash(&mut h);
            hop.last_ms().map(f64::to_bits).hash(&mut h);
            hop.best_ms().map(f64::to_bits).hash(&mut h);
            hop.worst_ms().map(f64::to_bits).hash(&mut h);
            hop.avg_ms().to_bits().hash(&mut h);
            hop.stddev_ms().to_bits().hash(&mut h);
            hop.jitter_ms().map(f64::to_bits).hash(&mut h);
            hop.javg_ms().to_bits().hash(&mut h);
            hop.jmax_ms().map(f64::to_bits).hash(&mut h);
            hop.jinta().to_bits().hash(&mut h);
            hop.last_src_port().hash(&mut h);
            hop.last_dest_port().hash(&mut h);
            hop.last_sequence().hash(&mut h);
            (hop.last_nat_status() as u8).hash(&mut h);
            hop.tos().map(|t| t.0).hash(&mut h);
            for (a, c) in hop.addrs_with_counts() {
                a.hash(&mut h);
                c.hash(&mut h);
            }
            hop.samples().hash(&mut h);
        }
        st.is_target(st.target_hop(fid), fid).hash(&mut h);
        st.target_hop(fid).ttl().hash(&mut h);
    }
    for (f, id) in st.flows() {
        id.0.hash(&mut h);
        format!("{f}").hash(&mut h);
    }
    st.round_flow_id().0.hash(&mut h);
    h.finish()
}
