#![allow(dead_code)]
//! vcore: model-checking harness for trippy-core / trippy-packet properties.
//! Usage: vcore <Cxx> [--tier quick|thorough] [--replay <file>]

mod c01;
mod c02;
mod c03;
mod c04;
mod c05;
mod c06;
mod c07;
mod c08;
mod c09;
mod c10;
mod c11;
mod c12;
mod c13;
mod c14;
mod c15;
mod c19;
mod c20;
mod drive;
mod mc;
mod pkt;
mod refstate;
mod report;
mod sched;
mod simnet;
mod stateexp;
mod strat;
mod vclock;
mod wire;

fn main() {
    let argv: Vec<String> = std::env::args().collect();
    if argv.len() < 2 {
        eprintln!("usage: vcore <Cxx> [--tier quick|thorough] [--replay <file>]");
        std::process::exit(2);
    }
    // keep large, short-lived allocations (probe buffers, hop tables) in the heap instead of
    // mmap/munmap churn: every execution rebuilds the whole tracer
    unsafe {
        libc::mallopt(libc::M_MMAP_THRESHOLD, 1 << 30);
        libc::mallopt(libc::M_TRIM_THRESHOLD, 1 << 30);
        libc::mallopt(libc::M_TOP_PAD, 64 << 20);
    }
    mc::install_panic_hook();
    vclock::self_test();
    wire::self_test();
    let args = report::parse_args(&argv[2..]);
    let code = match argv[1].as_str() {
        "C01" => c01::run(&args),
        "C02" => c02::run(&args),
        "C03" => c03::run(&args),
        "C04" => c04::run(&args),
        "C05" => c05::run(&args),
        "C06" => c06::run(&args),
        "C07" => c07::run(&args),
        "C08" => c08::run(&args),
        "C09" => c09::run(&args),
        "C10" => c10::run(&args),
        "C11" => c11::run(&args),
        "C12" => c12::run(&args),
        "C13" => c13::run(&args),
        "C14" => c14::run(&args),
        "C15" => c15::run(&args),
        "C19" => c19::run(&args),
        "C20" => c20::run(&args),
        other => {
            eprintln!("MACHINERY: unknown property {other}");
            2
        }
    };
    std::process::exit(code);
}
