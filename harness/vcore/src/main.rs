//! vcore: model-checking harness for trippy-core / trippy-packet properties.
//! Usage: vcore <Cxx> [--tier quick|thorough] [--replay <file>]

use vcore::*;

fn main() {
    let argv: Vec<String> = std::env::args().collect();
    if argv.len() < 2 {
        eprintln!("usage: vcore <Cxx> [--tier quick|thorough] [--replay <file>]");
        std::process::exit(2);
    }
    vcore::init();
    let args = report::parse_args(&argv[2..]);
    report::start_watchdog(args.tier);
    let code = match argv[1].as_str() {
        "C01" => c01::run(&args),
        "C02" => c02::run(&args),
        "C03" => c03::run(&args),
        "C04" => c04::run(&args),
        "C05" => c05::run(&args),
        "C06" => c06::run(&args),
        "C07" => c07::run(&args),
        "C08" => c08::run(&args),
        "C09" => c09::run(&args),
        "C10" => c10::run(&args),
        "C11" => c11::run(&args),
        "C12" => c12::run(&args),
        "C13" => c13::run(&args),
        "C14" => c14::run(&args),
        "C15" => c15::run(&args),
        "C19" => c19::run(&args),
        "C20" => c20::run(&args),
        other => {
            eprintln!("MACHINERY: unknown property {other}");
            2
        }
    };
    std::process::exit(code);
}
