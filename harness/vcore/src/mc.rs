//! E1: stateless, deviation-bounded explorer (prefix-replay DFS) + helpers shared by all engines.
//!
//! A *run* is a deterministic function of a choice list.  `Chooser::choose(n)` answers the
//! recorded prefix first (an out-of-range recorded answer is a hard machinery error) and `0`
//! (the default environment answer) afterwards.  `explore` enumerates every choice list whose
//! number of non-default answers is `<= bound`.

use std::collections::hash_map::DefaultHasher;
use std::hash::{Hash, Hasher};
use std::sync::atomic::{AtomicUsize, Ordering};
use std::sync::Mutex;

/// Records and replays environment choices for one execution.
#[derive(Debug, Clone)]
pub struct Chooser {
    prefix: Vec<u16>,
    /// The answer given at each choice point of this execution.
    pub choices: Vec<u16>,
    /// The number of alternatives offered at each choice point.
    pub arity: Vec<u16>,
    /// After this many choice points only default answers are given (horizon).
    pub max_points: usize,
    /// Set when the horizon was hit.
    pub horizon_hit: bool,
    /// Lenient replay (differential re-runs): a recorded answer that does not fit the arity is
    /// answered with the default and `diverged` is set, instead of being a machinery error.
    pub lenient: bool,
    pub diverged: bool,
}

impl Chooser {
    pub fn new(prefix: &[u16], max_points: usize) -> Self {
        Self {
            prefix: prefix.to_vec(),
            choices: Vec::with_capacity(64),
            arity: Vec::with_capacity(64),
            max_points,
            horizon_hit: false,
            lenient: false,
            diverged: false,
        }
    }

    pub fn lenient(prefix: &[u16], max_points: usize) -> Self {
        let mut c = Self::new(prefix, max_points);
        c.lenient = true;
        c
    }

    /// Choose one of `n >= 1` alternatives; alternative 0 is the default (cost 0).
    pub fn choose(&mut self, n: usize) -> usize {
        assert!(n >= 1 && n <= u16::MAX as usize, "MACHINERY: bad arity {n}");
        if n == 1 {
            return 0;
        }
        let i = self.choices.len();
        if i >= self.max_points {
            self.horizon_hit = true;
            return 0;
        }
        let c = if i < self.prefix.len() {
            let c = self.prefix[i] as usize;
            if self.lenient && c >= n {
                self.diverged = true;
                0
            } else {
                assert!(
                    c < n,
                    "MACHINERY: replay divergence at choice point {i}: recorded {c} but arity {n}"
                );
                c
            }
        } else {
            0
        };
        self.choices.push(c as u16);
        self.arity.push(n as u16);
        c
    }

    pub fn deviations(&self) -> usize {
        self.choices.iter().filter(|c| **c != 0).count()
    }
}

#[derive(Debug, Default, Clone)]
pub struct ExploreStats {
    pub executions: u64,
    /// Tree nodes (distinct choice prefixes reached) = states of the stateless search.
    pub states: u64,
    /// Choice points executed (tree edges followed, counted with multiplicity).
    pub transitions: u64,
    pub max_points: usize,
    pub horizon_hits: u64,
    pub executions_by_dev: Vec<u64>,
}

impl ExploreStats {
    pub fn merge(&mut self, o: &ExploreStats) {
        self.executions += o.executions;
        self.states += o.states;
        self.transitions += o.transitions;
        self.max_points = self.max_points.max(o.max_points);
        self.horizon_hits += o.horizon_hits;
        if self.executions_by_dev.len() < o.executions_by_dev.len() {
            self.executions_by_dev.resize(o.executions_by_dev.len(), 0);
        }
        for (i, v) in o.executions_by_dev.iter().enumerate() {
            self.executions_by_dev[i] += v;
        }
    }
}

/// Enumerate all executions with at most `bound` deviations.
///
/// `run` executes the system under the given chooser and evaluates the oracle; it returns
/// `false` to stop the exploration early (e.g. too many violations).
pub fn explore(
    bound: usize,
    max_points: usize,
    run: &mut dyn FnMut(&mut Chooser) -> bool,
) -> ExploreStats {
    explore_shard(bound, max_points, 0, 1, run)
}

static SOFT_DEADLINE: std::sync::OnceLock<std::time::Instant> = std::sync::OnceLock::new();

/// Soft wall cap (set by `report::start_watchdog`): once passed, every search loop stops where it
/// is.  The run then ends with the findings it has (exit 1) or, with none, as a machinery failure
/// (exit 2: capped without a verdict).  Never reached on the unchanged tree.
pub fn set_soft_deadline(secs: u64) {
    let _ = SOFT_DEADLINE.set(std::time::Instant::now() + std::time::Duration::from_secs(secs));
}

pub fn past_soft_deadline() -> bool {
    SOFT_DEADLINE.get().is_some_and(|d| std::time::Instant::now() > *d)
}

/// One of `nshards` disjoint parts of `explore`: the executions are partitioned by the position
/// of their FIRST deviation (position mod nshards); the deviation-free execution belongs to
/// shard 0 (the other shards run it once, uncounted, to learn the choice points).  The union of
/// all shards is exactly the execution set of `explore`.
pub fn explore_shard(
    bound: usize,
    max_points: usize,
    shard: usize,
    nshards: usize,
    run: &mut dyn FnMut(&mut Chooser) -> bool,
) -> ExploreStats {
    let mut stats = ExploreStats::default();
    stats.executions_by_dev = vec![0; bound.min(8) + 1];
    let mut stack: Vec<Vec<u16>> = vec![vec![]];
    while let Some(prefix) = stack.pop() {
        if past_soft_deadline() {
            break;
        }
        let mut ch = Chooser::new(&prefix, max_points);
        let cont = run(&mut ch);
        assert!(
            ch.choices.len() >= prefix.len(),
            "MACHINERY: replay consumed fewer choice points ({}) than the prefix ({})",
            ch.choices.len(),
            prefix.len()
        );
        let dev = prefix.iter().filter(|c| **c != 0).count();
        let counted = !(prefix.is_empty() && shard != 0);
        if counted {
            stats.executions += 1;
            if stats.executions_by_dev.len() <= dev {
                stats.executions_by_dev.resize(dev + 1, 0);
            }
            stats.executions_by_dev[dev] += 1;
            stats.transitions += ch.choices.len() as u64;
            let new_nodes = if prefix.is_empty() {
                ch.choices.len() + 1
            } else {
                ch.choices.len() - prefix.len() + 1
            };
            stats.states += new_nodes as u64;
        }
        stats.max_points = stats.max_points.max(ch.choices.len());
        if ch.horizon_hit {
            stats.horizon_hits += 1;
        }
        if !cont {
            break;
        }
        if dev + 1 > bound {
            continue;
        }
        // children, pushed in reverse so that earlier points / smaller alternatives run first
        for i in (prefix.len()..ch.choices.len()).rev() {
            if prefix.is_empty() && i % nshards.max(1) != shard {
                continue;
            }
            for alt in (1..ch.arity[i]).rev() {
                let mut p = ch.choices[..i].to_vec();
                p.push(alt);
                stack.push(p);
            }
        }
    }
    stats
}

/// Run `f(i)` for `i in 0..n` on `workers` threads (dynamic work distribution).
pub fn par_for<F: Fn(usize) + Sync>(n: usize, workers: usize, f: F) {
    // VERIF_SEED only rotates the ORDER in which the (always complete) index space is walked, so
    // that a wall cap, if one is ever hit, does not always cut the same tail
    let rot = std::env::var("VERIF_SEED").ok().and_then(|s| s.parse::<usize>().ok()).unwrap_or(0) % n.max(1);
    let f = |i: usize| f((i + rot) % n.max(1));
    let next = AtomicUsize::new(0);
    let panicked: Mutex<Option<String>> = Mutex::new(None);
    std::thread::scope(|s| {
        for _ in 0..workers.max(1).min(n.max(1)) {
            s.spawn(|| loop {
                let i = next.fetch_add(1, Ordering::Relaxed);
                if i >= n || past_soft_deadline() {
                    break;
                }
                let r = std::panic::catch_unwind(std::panic::AssertUnwindSafe(|| f(i)));
                if let Err(e) = r {
                    let msg = panic_message(&e);
                    *panicked.lock().unwrap() = Some(msg);
                    next.store(n, Ordering::Relaxed);
                    break;
                }
            });
        }
    });
    if let Some(msg) = panicked.into_inner().unwrap() {
        panic!("MACHINERY: worker panicked: {msg}");
    }
}

pub fn workers() -> usize {
    std::env::var("VERIF_WORKERS")
        .ok()
        .and_then(|s| s.parse().ok())
        .unwrap_or_else(|| std::thread::available_parallelism().map_or(8, |n| n.get()))
}

pub fn panic_message(e: &Box<dyn std::any::Any + Send>) -> String {
    if let Some(s) = e.downcast_ref::<&str>() {
        (*s).to_string()
    } else if let Some(s) = e.downcast_ref::<String>() {
        s.clone()
    } else {
        "<non-string panic>".to_string()
    }
}

pub fn hash64<T: Hash>(t: &T) -> u64 {
    let mut h = DefaultHasher::new();
    t.hash(&mut h);
    h.finish()
}

// ---------------------------------------------------------------------------------------------
// Panic capture: classify panics of the code under test by kind and location.

use std::cell::RefCell;

#[derive(Debug, Clone)]
pub struct PanicInfo {
    pub kind: &'static str,
    pub file: String,
    pub line: u32,
    pub message: String,
}

impl PanicInfo {
    /// A stable key: kind + file + message with digits normalised (no line numbers).
    pub fn key(&self) -> String {
        let mut norm = String::new();
        let mut last_hash = false;
        for c in self.message.chars().take(120) {
            if c.is_ascii_digit() {
                if !last_hash {
                    norm.push('#');
                    last_hash = true;
                }
            } else {
                norm.push(if c == '\n' { ' ' } else { c });
                last_hash = false;
            }
        }
        let root = format!("{}/", crate::report::repo_root());
        let file = self.file.trim_start_matches(root.as_str());
        format!("panic:{}:{}:{}", self.kind, file, norm)
    }
}

thread_local! {
    static LAST_PANIC: RefCell<Option<PanicInfo>> = const { RefCell::new(None) };
    static CAPTURE: RefCell<bool> = const { RefCell::new(false) };
}

fn classify(msg: &str) -> &'static str {
    if msg.contains("MACHINERY") {
        "machinery"
    } else if msg.contains("overflow") {
        "overflow"
    } else if msg.contains("out of range") || msg.contains("out of bounds") || msg.contains("index") && msg.contains("len") {
        "index"
    } else if msg.contains("not implemented") {
        "unimplemented"
    } else if msg.contains("assertion") || msg.contains("completed probe was not in Awaited") || msg.contains("vals.len() <= len") {
        "debug_assert"
    } else if msg.contains("unwrap") || msg.contains("expect") {
        "unwrap"
    } else if msg.contains("unreachable") {
        "unreachable"
    } else {
        "other"
    }
}

/// Install the process-wide panic hook (once).  While a thread is inside `catch`, panics are
/// recorded silently; otherwise they are printed as usual.
pub fn install_panic_hook() {
    static ONCE: std::sync::Once = std::sync::Once::new();
    ONCE.call_once(|| {
        let default = std::panic::take_hook();
        std::panic::set_hook(Box::new(move |info| {
            let capturing = CAPTURE.with(|c| *c.borrow());
            let msg = if let Some(s) = info.payload().downcast_ref::<&str>() {
                (*s).to_string()
            } else if let Some(s) = info.payload().downcast_ref::<String>() {
                s.clone()
            } else {
                "<non-string panic>".to_string()
            };
            if capturing && !msg.contains("MACHINERY") {
                let (file, line) = info
                    .location()
                    .map_or((String::from("?"), 0), |l| (l.file().to_string(), l.line()));
                LAST_PANIC.with(|p| {
                    *p.borrow_mut() = Some(PanicInfo {
                        kind: classify(&msg),
                        file,
                        line,
                        message: msg,
                    });
                });
            } else {
                default(info);
            }
        }));
    });
}

/// Run `f`, converting a panic of the code under test into `Err(PanicInfo)`.
/// Panics whose message contains `MACHINERY` are propagated.
pub fn catch<R>(f: impl FnOnce() -> R) -> Result<R, PanicInfo> {
    install_panic_hook();
    let prev = CAPTURE.with(|c| std::mem::replace(&mut *c.borrow_mut(), true));
    LAST_PANIC.with(|p| *p.borrow_mut() = None);
    let r = std::panic::catch_unwind(std::panic::AssertUnwindSafe(f));
    CAPTURE.with(|c| *c.borrow_mut() = prev);
    match r {
        Ok(v) => Ok(v),
        Err(e) => {
            let info = LAST_PANIC.with(|p| p.borrow_mut().take());
            match info {
                Some(i) => Err(i),
                None => {
                    // machinery panic (not captured): re-raise
                    std::panic::resume_unwind(e)
                }
            }
        }
    }
}
