//! vtui: model-checking harness for the trippy-tui properties (C16, C17, C18).

mod c16;
mod c17;
mod c18;
mod explore;
mod mmdb;
mod tuiworld;

use tuiworld::{TraceEv, World, WorldCfg};

fn main() {
    let argv: Vec<String> = std::env::args().collect();
    vcore::init();
    tuiworld::self_check();
    if argv.get(1).map(String::as_str) == Some("smoke") {
        let mut w = World::new(&WorldCfg { size: (120, 30), ..WorldCfg::default() });
        w.loop_top();
        w.draw();
        w.trace_event(TraceEv::Path3, 0);
        w.trace_event(TraceEv::Branch, 0);
        w.loop_top();
        w.draw();
        for l in w.screen() {
            println!("{l}");
        }
        w.press("toggle_hop_details");
        w.press("next_hop");
        w.press("next_hop");
        w.loop_top();
        w.draw();
        for l in w.screen() {
            println!("{l}");
        }
        tuiworld::remove_fixture();
        return;
    }
    if argv.len() < 2 {
        eprintln!("usage: vtui <C16|C17|C18> [--tier quick|thorough] [--replay file]");
        std::process::exit(2);
    }
    let args = vcore::report::parse_args(&argv[2..]);
    vcore::report::start_watchdog(args.tier);
    let code = match argv[1].as_str() {
        "C16" => c16::run(&args),
        "C17" => c17::run(&args),
        "C18" => c18::run(&args),
        other => {
            eprintln!("MACHINERY: unknown property {other}");
            2
        }
    };
    std::process::exit(code);
}
