//! vtui: model-checking harness for the trippy-tui properties (C16, C17, C18).

mod c16;
mod c17;
mod c18;
mod explore;
mod mmdb;
mod tuiworld;

use tuiworld::{TraceEv, World, WorldCfg};

fn main() {
    let argv: Vec<String> = std::env::args().collect();
    vcore::init();
    tuiworld::self_check();
    if argv.get(1).map(String::as_str) == Some("smoke") {
        let mut w = World::new(&WorldCfg { size: (120, 30), ..WorldCfg::default() });
        w.loop_top();
        w.draw();
        w.trace_event(TraceEv::Path3, 0);
        w.trace_event(TraceEv::Branch, 0);
        w.loop_top();
        w.draw();
        for l in w.screen() {
            println!("{l}");
        }
        w.press("toggle_hop_details");
        w.press("next_hop");
        w.press("next_hop");
        w.loop_top();
        w.draw();
        for l in w.screen() {
            println!("{l}");
        }
        tuiworld::remove_fixture();
        return;
    }
    if argv.get(1).map(String::as_str) == Some("hangscan") {
        // diagnostic: draw a fixed state at every terminal width in a thread of its own (this
        // process's hash seed = VERIF_HASH_SEED) and report draws that do not return
        let (tx, rx) = std::sync::mpsc::channel::<(u16, u16)>();
        let heights: Vec<u16> = argv.get(2).map_or(vec![24], |h| h.split(',').map(|x| x.parse().unwrap()).collect());
        for h in heights {
            for w in 1..=300u16 {
                let tx = tx.clone();
                let t = std::thread::spawn(move || {
                    let mut wd = World::new(&WorldCfg { size: (w, h), ..WorldCfg::default() });
                    wd.trace_event(TraceEv::Path3, 0);
                    wd.trace_event(TraceEv::Branch, 0);
                    wd.loop_top();
                    let _ = vcore::mc::catch(|| wd.draw());
                    wd.press("toggle_hop_details");
                    wd.press("next_hop");
                    wd.loop_top();
                    let _ = vcore::mc::catch(|| wd.draw());
                    let _ = tx.send((w, h));
                });
                match rx.recv_timeout(std::time::Duration::from_secs(5)) {
                    Ok(_) => {
                        let _ = t.join();
                    }
                    Err(_) => println!("HANG seed={} size={}x{}", std::env::var("VERIF_HASH_SEED").unwrap_or_default(), w, h),
                }
            }
        }
        tuiworld::remove_fixture();
        std::process::exit(0);
    }
    if argv.get(1).map(String::as_str) == Some("cli-ids") {
        // the trace identifiers the command line gives to sibling tracers (used by C03): the real
        // `start_tracers` is run for n loopback targets; an out-of-range packet size makes every
        // spawned tracer thread stop in `Channel::connect` before it opens a probe socket
        use clap::Parser;
        let pid: u16 = argv.get(2).and_then(|x| x.parse().ok()).expect("MACHINERY: cli-ids <pid> <n>");
        let n: usize = argv.get(3).and_then(|x| x.parse().ok()).expect("MACHINERY: cli-ids <pid> <n>");
        let line = ["trip", "127.0.0.1", "-A", "127.0.0.1"];
        let args = trippy_tui::verif::Args::try_parse_from(line).expect("MACHINERY: CLI rejected the cli-ids command line");
        let mut cfg = trippy_tui::verif::config_from_str(args, "", true, false, pid).expect("MACHINERY: config rejected");
        cfg.packet_size = 2000;
        let addrs: Vec<std::net::IpAddr> = (0..n).map(|i| std::net::IpAddr::V4(std::net::Ipv4Addr::new(127, 0, 0, 1 + i as u8))).collect();
        match vcore::mc::catch(|| trippy_tui::verif::start_tracers(&cfg, &addrs, pid)) {
            Ok(Ok(traces)) => {
                let ids: Vec<String> = traces.iter().map(|t| t.data.trace_identifier().0.to_string()).collect();
                println!("CLI-IDS {}", ids.join(" "));
            }
            Ok(Err(e)) => println!("CLI-IDS-ERROR {e}"),
            Err(p) => println!("CLI-IDS-PANIC {} at {}:{}", p.message, p.file, p.line),
        }
        std::process::exit(0);
    }
    if argv.len() < 2 {
        eprintln!("usage: vtui <C16|C17|C18> [--tier quick|thorough] [--replay file]");
        std::process::exit(2);
    }
    let args = vcore::report::parse_args(&argv[2..]);
    vcore::report::start_watchdog(args.tier);
    let code = match argv[1].as_str() {
        "C16" => c16::run(&args),
        "C17" => c17::run(&args),
        "C18" => c18::run(&args),
        other => {
            eprintln!("MACHINERY: unknown property {other}");
            2
        }
    };
    std::process::exit(code);
}
