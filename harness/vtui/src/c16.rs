//! C16 — option precedence is CLI over file over default; accepted configs can run.
//! (a) exhaustive pairwise placements through the real clap parser, the real TOML deserialiser
//!     and the real `build_config`, differential oracle (no per-field knowledge);
//! (b) the full builder parameter grid: whatever `Builder::build` accepts is run over the
//!     simulated network and must not panic.

use clap::Parser;
use serde_json::json;
use std::collections::BTreeMap;
use std::sync::Mutex;
use std::time::Duration;
use trippy_core::{Builder, IcmpExtensionParseMode, MultipathStrategy, PortDirection, PrivilegeMode, Protocol};
use trippy_tui::verif::{self as tv, Args};
use vcore::mc::{self, Chooser};
use vcore::report::{Args as CheckArgs, Finding, Report, Tier};
use vcore::simnet::{self, Menu, SimSocket};
use vcore::{drive, vclock};

type Findings = BTreeMap<String, Finding>;

#[derive(Debug, Clone)]
struct Opt {
    cli: String,
    section: &'static str,
    key: String,
    flag: bool,
    /// (cli value, toml literal)
    v1: (String, String),
    v2: (String, String),
    /// further values of the option's domain (enumeration members, numeric boundary and sentinel
    /// values); placement index 3.. ; may be invalid - the oracle is differential
    extra: Vec<(String, String)>,
}

impl Opt {
    fn value(&self, idx: u8) -> &(String, String) {
        match idx {
            1 => &self.v1,
            2 => &self.v2,
            k => &self.extra[usize::from(k) - 3],
        }
    }
}

fn q(s: &str) -> String {
    format!("\"{s}\"")
}

fn options() -> Vec<Opt> {
    let mut v = vec![];
    let mut val = |cli: &str, section: &'static str, a: &str, b: &str, quoted: bool| {
        let t = |x: &str| if quoted { q(x) } else { x.to_string() };
        v.push(Opt { cli: cli.to_string(), section, key: cli.to_string(), flag: false, v1: (a.to_string(), t(a)), v2: (b.to_string(), t(b)), extra: vec![] });
    };
    val("mode", "trippy", "stream", "json", true);
    val("log-format", "trippy", "compact", "json", true);
    val("log-filter", "trippy", "info", "debug", true);
    val("log-span-events", "trippy", "active", "full", true);
    val("protocol", "strategy", "udp", "tcp", true);
    val("addr-family", "strategy", "ipv4", "ipv6", true);
    val("target-port", "strategy", "80", "443", false);
    val("source-port", "strategy", "5000", "6000", false);
    val("source-address", "strategy", "10.0.0.1", "10.0.0.2", true);
    val("interface", "strategy", "eth0", "lo", true);
    val("min-round-duration", "strategy", "500ms", "600ms", true);
    val("max-round-duration", "strategy", "2s", "3s", true);
    val("initial-sequence", "strategy", "100", "200", false);
    val("multipath-strategy", "strategy", "paris", "dublin", true);
    val("grace-duration", "strategy", "20ms", "30ms", true);
    val("max-inflight", "strategy", "10", "11", false);
    val("first-ttl", "strategy", "2", "3", false);
    val("max-ttl", "strategy", "30", "31", false);
    val("packet-size", "strategy", "100", "200", false);
    val("payload-pattern", "strategy", "1", "2", false);
    val("tos", "strategy", "4", "8", false);
    val("read-timeout", "strategy", "20ms", "30ms", true);
    val("max-samples", "strategy", "10", "20", false);
    val("max-flows", "strategy", "5", "6", false);
    val("dns-resolve-method", "dns", "google", "cloudflare", true);
    val("dns-timeout", "dns", "1s", "2s", true);
    val("dns-ttl", "dns", "10s", "20s", true);
    val("report-cycles", "report", "3", "4", false);
    val("tui-refresh-rate", "tui", "200ms", "300ms", true);
    val("tui-privacy-max-ttl", "tui", "1", "2", false);
    val("tui-address-mode", "tui", "ip", "both", true);
    val("tui-as-mode", "tui", "prefix", "name", true);
    val("tui-icmp-extension-mode", "tui", "mpls", "full", true);
    val("tui-geoip-mode", "tui", "long", "location", true);
    val("tui-max-addrs", "tui", "2", "3", false);
    val("geoip-mmdb-file", "tui", "/a.mmdb", "/b.mmdb", true);
    val("tui-custom-columns", "tui", "hol", "hos", true);
    val("tui-locale", "tui", "fr", "de", true);
    val("tui-timezone", "tui", "UTC", "Europe/London", true);
    for (f, s) in [("unprivileged", "trippy"), ("icmp-extensions", "strategy"), ("dns-resolve-all", "dns"), ("dns-lookup-as-info", "dns"), ("tui-preserve-screen", "tui")] {
        v.push(Opt { cli: f.to_string(), section: s, key: f.to_string(), flag: true, v1: (String::new(), "true".into()), v2: (String::new(), "false".into()), extra: vec![] });
    }
    let theme = [
        "bg-color", "border-color", "text-color", "tab-text-color", "hops-table-header-bg-color", "hops-table-header-text-color", "hops-table-row-active-text-color", "hops-table-row-inactive-text-color", "hops-chart-selected-color",
        "hops-chart-unselected-color", "hops-chart-axis-color", "frequency-chart-bar-color", "frequency-chart-text-color", "flows-chart-bar-selected-color", "flows-chart-bar-unselected-color", "flows-chart-text-current-color",
        "flows-chart-text-non-current-color", "samples-chart-color", "samples-chart-lost-color", "help-dialog-bg-color", "help-dialog-text-color", "settings-dialog-bg-color", "settings-tab-text-color", "settings-table-header-text-color",
        "settings-table-header-bg-color", "settings-table-row-text-color", "map-world-color", "map-radius-color", "map-selected-color", "map-info-panel-border-color", "map-info-panel-bg-color", "map-info-panel-text-color",
        "info-bar-bg-color", "info-bar-text-color",
    ];
    for t in theme {
        v.push(Opt { cli: format!("theme:{t}"), section: "theme-colors", key: t.to_string(), flag: false, v1: ("magenta".into(), q("magenta")), v2: ("ff00ff".into(), q("ff00ff")), extra: vec![] });
    }
    let binds = [
        "toggle-help", "toggle-help-alt", "toggle-settings", "toggle-settings-tui", "toggle-settings-trace", "toggle-settings-dns", "toggle-settings-geoip", "toggle-settings-bindings", "toggle-settings-theme", "toggle-settings-columns",
        "previous-hop", "next-hop", "previous-trace", "next-trace", "previous-hop-address", "next-hop-address", "address-mode-ip", "address-mode-host", "address-mode-both", "toggle-freeze", "toggle-chart", "toggle-map", "toggle-flows",
        "expand-privacy", "contract-privacy", "expand-hosts", "contract-hosts", "expand-hosts-max", "contract-hosts-min", "chart-zoom-in", "chart-zoom-out", "clear-trace-data", "clear-dns-cache", "clear-selection", "toggle-as-info",
        "toggle-hop-details", "quit", "quit-preserve-screen",
    ];
    let keys = "abcdefghijklmnopqrstuvwxyz0123456789";
    for (i, b) in binds.iter().enumerate() {
        let k: String = if i < keys.len() { keys[i..=i].to_string() } else { ["tab", "home", "end", "insert"][i - keys.len()].to_string() };
        v.push(Opt { cli: format!("bind:{b}"), section: "bindings", key: (*b).to_string(), flag: false, v1: (format!("meta+{k}"), q(&format!("meta+{k}"))), v2: (format!("hyper+{k}"), q(&format!("hyper+{k}"))), extra: vec![] });
    }
    // value domains for the single-option sweep
    let enums: &[(&str, &[&str])] = &[
        ("mode", &["tui", "stream", "pretty", "markdown", "csv", "json", "dot", "flows", "silent"]),
        ("log-format", &["compact", "pretty", "json", "chrome"]),
        ("log-span-events", &["off", "active", "full"]),
        ("protocol", &["icmp", "udp", "tcp"]),
        ("addr-family", &["ipv4", "ipv6", "ipv6-then-ipv4", "ipv4-then-ipv6", "system"]),
        ("multipath-strategy", &["classic", "paris", "dublin"]),
        ("dns-resolve-method", &["system", "resolv", "google", "cloudflare"]),
        ("tui-address-mode", &["ip", "host", "both"]),
        ("tui-as-mode", &["asn", "prefix", "country-code", "registry", "allocated", "name"]),
        ("tui-icmp-extension-mode", &["off", "mpls", "full", "all"]),
        ("tui-geoip-mode", &["off", "short", "long", "location"]),
        ("tui-custom-columns", &["h", "holsravbwdt", "HOLSRAVBWDT"]),
        ("tui-locale", &["en", "zh", "xx"]),
        ("tui-timezone", &["UTC", "Asia/Tokyo", "Nowhere/Land"]),
        ("log-filter", &["trace", "off", ""]),
    ];
    let durations = ["min-round-duration", "max-round-duration", "grace-duration", "read-timeout", "dns-timeout", "dns-ttl", "tui-refresh-rate"];
    let numeric = [
        "target-port", "source-port", "initial-sequence", "max-inflight", "first-ttl", "max-ttl", "packet-size", "payload-pattern", "tos", "max-samples", "max-flows", "report-cycles", "tui-privacy-max-ttl", "tui-max-addrs",
    ];
    for o in &mut v {
        if let Some((_, vals)) = enums.iter().find(|(n, _)| *n == o.cli) {
            o.extra = vals.iter().map(|x| ((*x).to_string(), q(x))).collect();
        } else if durations.contains(&o.cli.as_str()) {
            o.extra = ["0ms", "1ms", "10ms", "50ms", "100ms", "1s", "10s", "1000s"].iter().map(|x| ((*x).to_string(), q(x))).collect();
        } else if numeric.contains(&o.cli.as_str()) {
            o.extra = ["0", "1", "7", "28", "64", "254", "255", "256", "1024", "1025", "33434", "64511", "64512", "65535"].iter().map(|x| ((*x).to_string(), (*x).to_string())).collect();
        }
    }
    v
}

/// Where an option is given: (file value, cli value), each None / Some(1|2) (flags: file 1=true, 2=false).
type Placement = (Option<u8>, Option<u8>);

fn build(opts: &[(usize, Placement)], table: &[Opt], ctx: &[String]) -> Result<String, String> {
    build_spelt(opts, table, ctx, false)
}

/// The shortcut flag that spells `--<option> <value>` on the command line, if there is one.
fn shortcut_flag(option: &str, value: &str) -> Option<String> {
    match (option, value) {
        ("protocol", "icmp" | "udp" | "tcp") | ("addr-family", "ipv4" | "ipv6") => Some(format!("--{value}")),
        _ => None,
    }
}

/// `shortcuts`: command-line values are spelt with their shortcut flag (`--udp`, `--ipv6`) where
/// one exists - a command-line value all the same.
fn build_spelt(opts: &[(usize, Placement)], table: &[Opt], ctx: &[String], shortcuts: bool) -> Result<String, String> {
    let mut argv: Vec<String> = vec!["trip".into(), "example.com".into()];
    argv.extend(ctx.iter().cloned());
    let mut sections: BTreeMap<&str, Vec<String>> = BTreeMap::new();
    let mut theme_cli = vec![];
    let mut bind_cli = vec![];
    for (oi, (file, cli)) in opts {
        let o = &table[*oi];
        if let Some(f) = file {
            let lit = &o.value(*f).1;
            sections.entry(o.section).or_default().push(format!("{} = {}", o.key, lit));
        }
        if let Some(c) = cli {
            let val = &o.value(*c).0;
            if o.flag {
                argv.push(format!("--{}", o.cli));
            } else if let Some(item) = o.cli.strip_prefix("theme:") {
                theme_cli.push(format!("{item}={val}"));
            } else if let Some(item) = o.cli.strip_prefix("bind:") {
                bind_cli.push(format!("{item}={val}"));
            } else if let (true, Some(flag)) = (shortcuts, shortcut_flag(&o.cli, val)) {
                argv.push(flag);
            } else {
                argv.push(format!("--{}", o.cli));
                argv.push(val.clone());
            }
        }
    }
    if !theme_cli.is_empty() {
        argv.push("--tui-theme-colors".into());
        argv.push(theme_cli.join(","));
    }
    if !bind_cli.is_empty() {
        argv.push("--tui-key-bindings".into());
        argv.push(bind_cli.join(","));
    }
    let mut toml = String::new();
    for (s, lines) in sections {
        toml.push_str(&format!("[{s}]\n"));
        for l in lines {
            toml.push_str(&l);
            toml.push('\n');
        }
    }
    let args = Args::try_parse_from(&argv).map_err(|e| format!("cli: {}", e.to_string().lines().next().unwrap_or("")))?;
    let cfg = tv::config_from_str(args, &toml, true, false, 4242).map_err(|e| format!("config: {e}"))?;
    Ok(format!("{cfg:?}"))
}

/// The effective placement per the precedence rule, expressed on the CLI only.
fn reference(opts: &[(usize, Placement)], table: &[Opt]) -> Vec<(usize, Placement)> {
    opts.iter()
        .map(|(oi, (file, cli))| {
            let o = &table[*oi];
            let eff: Option<u8> = match (cli, file) {
                (Some(c), _) => Some(*c),
                (None, Some(f)) => Some(*f),
                (None, None) => None,
            };
            // a flag whose effective value is false is simply not given
            let eff = if o.flag && eff == Some(2) { None } else { eff };
            (*oi, (None, eff))
        })
        .collect()
}

fn placements(o: &Opt) -> Vec<Placement> {
    if o.flag {
        // file in {absent,true,false} x cli in {absent,present}
        vec![(None, None), (Some(1), None), (Some(2), None), (None, Some(1)), (Some(1), Some(1)), (Some(2), Some(1))]
    } else {
        vec![(None, None), (Some(1), None), (None, Some(2)), (Some(1), Some(2)), (Some(2), Some(1))]
    }
}

fn part_a(tier: Tier, findings: &Mutex<Findings>) -> serde_json::Value {
    let table = options();
    let n = table.len();
    let contexts: Vec<(&str, Vec<String>)> = vec![
        ("bare", vec![]),
        ("udp", vec!["--udp".to_string()]),
        ("udp-dublin-google-geoip", ["--udp", "--multipath-strategy", "dublin", "--dns-resolve-method", "google", "--geoip-mmdb-file", "/x.mmdb"].iter().map(ToString::to_string).collect()),
    ];
    let ctx_owned = |name: &str| -> Vec<&'static str> {
        match name {
            "bare" => vec![],
            "udp" => vec!["protocol"],
            _ => vec!["protocol", "multipath-strategy", "dns-resolve-method", "geoip-mmdb-file"],
        }
    };
    // every option must have an effect on its own (non-vacuity of the differential oracle)
    // the configuration with nothing given is the documented default and must be accepted; so must
    // the three contexts (valid option sets taken from the documentation)
    let put = |key: &str, detail: String| {
        findings.lock().unwrap().entry(key.to_string()).or_insert_with(|| Finding { key: key.to_string(), detail, replay: json!({"check":"C16","part":"a","precondition":key}), weight: (0, 0), count: 1 });
    };
    let d0 = match build(&[], &table, &[]) {
        Ok(d) => d,
        Err(e) => {
            put("default-configuration-rejected", format!("`trip example.com` with an empty configuration file is rejected: {e}"));
            return json!({"aborted": "the default configuration is rejected"});
        }
    };
    for (cn, c) in &contexts {
        if let Err(e) = build(&[], &table, c) {
            put(&format!("documented-configuration-rejected:{cn}"), format!("{c:?} is rejected: {e}"));
            return json!({"aborted": format!("context {cn} is rejected")});
        }
    }
    for (i, o) in table.iter().enumerate() {
        for which in [1u8, 2] {
            if o.flag && which == 2 {
                continue;
            }
            // the first context in which the option is accepted and changes the configuration
            let ctx = contexts
                .iter()
                .find(|(cn, c)| {
                    !ctx_owned(cn).contains(&o.cli.as_str())
                        && match (build(&[(i, (None, Some(which)))], &table, c), build(&[], &table, c)) {
                            (Ok(x), Ok(b)) => x != b,
                            _ => false,
                        }
                })
                .or_else(|| contexts.iter().find(|(cn, c)| !ctx_owned(cn).contains(&o.cli.as_str()) && build(&[(i, (None, Some(which)))], &table, c).is_ok()))
                .map_or(&contexts[0].1, |c| &c.1);
            let base = build(&[], &table, ctx).expect("MACHINERY: context rejected");
            match build(&[(i, (None, Some(which)))], &table, ctx) {
                Ok(c) if c != base => {}
                Ok(_) => {
                    let key = format!("option-has-no-effect:{}", o.cli);
                    findings.lock().unwrap().insert(key.clone(), Finding { key, detail: format!("--{} {} leaves the effective configuration unchanged", o.cli, if which == 1 { &o.v1.0 } else { &o.v2.0 }), replay: json!({"check":"C16","part":"a","option":o.cli}), weight: (0, 0), count: 1 });
                }
                Err(e) => {
                    put(&format!("documented-value-rejected:{}", o.cli), format!("--{} {} (a documented value) is rejected on its own in every context: {e}", o.cli, o.value(which).0));
                }
            }
            let _ = &d0;
        }
    }
    // a compatible background: as many other options as stay valid together (greedy, table order)
    let mut background: Vec<usize> = vec![];
    for i in 0..n {
        let mut trial: Vec<(usize, Placement)> = background.iter().map(|j| (*j, (None, Some(1)))).collect();
        trial.push((i, (None, Some(1))));
        if build(&trial, &table, &contexts[2].1).is_ok() && !ctx_owned("rich").contains(&table[i].cli.as_str()) {
            background.push(i);
        }
    }
    // single-option sweep over the option's whole value domain: every (file value, cli value) pair,
    // including enumeration members, numeric boundaries and "auto" sentinels such as 0
    let mut sweep_total = 0u64;
    let mut sweep_ok = 0u64;
    let mut sweep_skipped = 0u64;
    for (i, o) in table.iter().enumerate() {
        if o.extra.is_empty() {
            continue;
        }
        let dom: Vec<Option<u8>> = std::iter::once(None).chain((1..=(2 + o.extra.len() as u8)).map(Some)).collect();
        for (cname, ctx) in &contexts {
            if ctx_owned(cname).contains(&o.cli.as_str()) {
                continue;
            }
            for f in &dom {
                for (c, shortcuts) in dom.iter().flat_map(|c| [(c, false), (c, true)]) {
                    // the command-line value spelt `--protocol udp` and, where the CLI has one, by
                    // its shortcut flag `--udp`
                    if shortcuts && !c.is_some_and(|k| shortcut_flag(&o.cli, &o.value(k).0).is_some()) {
                        continue;
                    }
                    let opts = vec![(i, (*f, *c))];
                    let got = build_spelt(&opts, &table, ctx, shortcuts);
                    // not expressible (clap refuses the value) or the file is not a well-formed
                    // configuration file at all (a literal outside the field's type makes the TOML
                    // deserialiser reject the whole file, whatever the command line says)
                    if matches!(&got, Err(e) if e.starts_with("cli:") || e.starts_with("config: TOML parse error")) {
                        sweep_skipped += 1;
                        continue;
                    }
                    let want = build(&reference(&opts, &table), &table, ctx);
                    sweep_total += 1;
                    let same = match (&got, &want) {
                        (Ok(g), Ok(w)) => {
                            sweep_ok += 1;
                            g == w
                        }
                        // a value the file layer rejects at parse time need not be rejected
                        // identically by the CLI-only equivalent; both must reject, though
                        (Err(_), Err(_)) => true,
                        _ => false,
                    };
                    if !same {
                        let show = |x: &Option<u8>, cli: bool| x.map_or("absent".to_string(), |k| if cli { o.value(k).0.clone() } else { o.value(k).1.clone() });
                        let detail = match (&got, &want) {
                            (Ok(g), Ok(w)) => g.split(", ").zip(w.split(", ")).find(|(x, y)| x != y).map(|(x, y)| format!("got `{x}` expected `{y}`")).unwrap_or_default(),
                            (g, w) => format!("placement gives {:?} but the CLI-only equivalent gives {:?}", g.as_ref().map(|_| "Ok").map_err(Clone::clone), w.as_ref().map(|_| "Ok").map_err(Clone::clone)),
                        };
                        let key = format!("precedence:{}", o.cli);
                        findings.lock().unwrap().entry(key.clone()).or_insert_with(|| Finding {
                            key,
                            detail: format!("[context {cname}; {} file={} cli={}{}] {detail}", o.cli, show(f, false), show(c, true), if shortcuts { " (spelt with its shortcut flag)" } else { "" }),
                            replay: json!({"check":"C16","part":"a-sweep","context":cname,"option":o.cli,"file":show(f, false),"cli":show(c, true),"shortcut_flag":shortcuts}),
                            weight: (0, 0),
                            count: 1,
                        });
                    }
                }
            }
        }
    }
    let pairs: Vec<(usize, usize)> = (0..n).flat_map(|a| ((a + 1)..n).map(move |b| (a, b))).collect();
    let stats = Mutex::new((0u64, 0u64, 0u64, vec![0u64; n]));
    mc::par_for(pairs.len(), mc::workers(), |pi| {
        let (a, b) = pairs[pi];
        let mut local: Vec<Finding> = vec![];
        let (mut total, mut both_ok, mut both_err) = (0u64, 0u64, 0u64);
        let mut ok_per_opt = [0u64; 2];
        for (cname, ctx) in &contexts {
            let owned = ctx_owned(cname);
            if owned.contains(&table[a].cli.as_str()) || owned.contains(&table[b].cli.as_str()) {
                continue;
            }
            // backgrounds: remaining options all absent / all in the file / all on the CLI
            let bgs: Vec<Vec<(usize, Placement)>> = if *cname != "udp-dublin-google-geoip" || tier == Tier::Quick && (a + b) % 4 != 0 {
                vec![vec![]]
            } else {
                let others: Vec<usize> = background.iter().copied().filter(|j| *j != a && *j != b).collect();
                vec![vec![], others.iter().map(|j| (*j, (Some(1), None))).collect(), others.iter().map(|j| (*j, (None, Some(1)))).collect()]
            };
            for bg in &bgs {
                for pa in placements(&table[a]) {
                    for pb in placements(&table[b]) {
                        let mut opts = bg.clone();
                        opts.push((a, pa));
                        opts.push((b, pb));
                        let got = build(&opts, &table, ctx);
                        let mut want = build(&reference(&opts, &table), &table, ctx);
                        if matches!(&want, Err(e) if e.starts_with("cli:")) {
                            // the command line itself refuses the combination (clap conflicts):
                            // use the file-only equivalent as the reference instead
                            let file_only: Vec<(usize, Placement)> = reference(&opts, &table).into_iter().map(|(i, (_, c))| (i, (c, None))).collect();
                            want = build(&file_only, &table, ctx);
                        }
                        total += 1;
                        if matches!(&got, Err(e) if e.starts_with("cli:")) {
                            // the command line parser itself refuses this combination (clap
                            // conflicts such as --source-address with --interface): not expressible
                            both_err += 1;
                            continue;
                        }
                        match (&got, &want) {
                            (Ok(g), Ok(w)) if g == w => {
                                both_ok += 1;
                                ok_per_opt[0] += 1;
                                ok_per_opt[1] += 1;
                            }
                            (Err(_), Err(_)) => both_err += 1,
                            _ => {
                                let which = if pa != (None, None) && (pb == (None, None) || got.is_ok()) { a } else { b };
                                let detail = match (&got, &want) {
                                    (Ok(g), Ok(w)) => {
                                        // first differing top-level field
                                        let diff = g.split(", ").zip(w.split(", ")).find(|(x, y)| x != y).map(|(x, y)| format!("got `{x}` expected `{y}`")).unwrap_or_default();
                                        format!("effective configuration differs from CLI-only equivalent: {diff}")
                                    }
                                    (g, w) => format!("placement gives {:?} but the CLI-only equivalent gives {:?}", g.as_ref().map(|_| "Ok").map_err(|e| e.clone()), w.as_ref().map(|_| "Ok").map_err(|e| e.clone())),
                                };
                                local.push(Finding {
                                    key: format!("precedence:{}", table[which].cli),
                                    detail: format!("[context {cname}; {}: file={:?} cli={:?}; {}: file={:?} cli={:?}; background {} options] {detail}", table[a].cli, pa.0, pa.1, table[b].cli, pb.0, pb.1, bg.len()),
                                    replay: json!({"check":"C16","part":"a","context":cname,"a":table[a].cli,"pa":[pa.0,pa.1],"b":table[b].cli,"pb":[pb.0,pb.1],"background":bg.len()}),
                                    weight: (bg.len(), 0),
                                    count: 1,
                                });
                            }
                        }
                    }
                }
            }
        }
        let mut s = stats.lock().unwrap();
        s.0 += total;
        s.1 += both_ok;
        s.2 += both_err;
        s.3[a] += ok_per_opt[0];
        s.3[b] += ok_per_opt[1];
        drop(s);
        if !local.is_empty() {
            let mut g = findings.lock().unwrap();
            for f in local {
                match g.get_mut(&f.key) {
                    Some(o) => {
                        o.count += 1;
                        if f.weight < o.weight {
                            let c = o.count;
                            *o = f;
                            o.count = c;
                        }
                    }
                    None => {
                        g.insert(f.key.clone(), f);
                    }
                }
            }
        }
    });
    let (total, ok, err, per) = stats.into_inner().unwrap();
    let min_ok = per.iter().copied().min().unwrap_or(0);
    if min_ok == 0 {
        let which: Vec<&str> = per.iter().enumerate().filter(|(_, n)| **n == 0).map(|(i, _)| table[i].cli.as_str()).collect();
        put("option-never-accepted", format!("no placement of {which:?} was ever accepted"));
    }
    json!({"single_option_domain_sweep_compared": sweep_total, "single_option_domain_sweep_accepted": sweep_ok, "single_option_domain_sweep_inexpressible": sweep_skipped, "options": n, "pairs": pairs.len(), "configurations_compared": total, "accepted_and_equal": ok, "rejected_on_both_sides": err, "min_accepted_comparisons_per_option": min_ok, "background_options": background.len()})
}

// ---------------------------------------------------------------------------------------------
// (b) accepted => runnable

#[derive(Debug, Clone)]
struct Grid {
    protocol: Protocol,
    strategy: MultipathStrategy,
    ports: PortDirection,
    v6: bool,
    first_ttl: u8,
    max_ttl: u8,
    max_inflight: u8,
    initial_sequence: u16,
    packet_size: u16,
    unprivileged: bool,
    ext: bool,
    profile: u8,
    /// the configured source address is of the other address family than the target (both are
    /// plain builder parameters; `Tracer::run` validates a given source address only for being
    /// bindable and then hands it to `Channel::connect` as it is)
    src_other_family: bool,
}

fn run_grid(g: &Grid, respond: bool) -> Result<Result<(), String>, mc::PanicInfo> {
    let (src, dst): (std::net::IpAddr, std::net::IpAddr) = if g.v6 { ("fd00::a00:1".parse().unwrap(), "fd00::a09:909".parse().unwrap()) } else { ("10.0.0.1".parse().unwrap(), "10.9.9.9".parse().unwrap()) };
    let (read_timeout, min_round, max_round, grace, connect, rounds) = match g.profile {
        0 => (Duration::from_millis(10), Duration::from_millis(25), Duration::from_millis(40), Duration::from_millis(5), Duration::from_millis(1000), 2usize),
        1 => (Duration::from_millis(1), Duration::from_millis(50), Duration::from_millis(50), Duration::from_millis(1), Duration::from_secs(10), 12usize),
        // long run: every round sends all max_ttl probes; 12 rounds of 254 cross every sequence wrap
        _ => (Duration::from_micros(10), Duration::from_micros(10 * (u64::from(g.max_ttl) + 3)), Duration::from_micros(10 * (u64::from(g.max_ttl) + 3)), Duration::from_micros(1), Duration::from_micros(500), 12usize),
    };
    let src_cfg: std::net::IpAddr = match (g.src_other_family, g.v6) {
        (false, _) => src,
        (true, true) => "10.0.0.1".parse().unwrap(),
        (true, false) => "fd00::a00:1".parse().unwrap(),
    };
    let built = Builder::new(dst)
        .source_addr(Some(src_cfg))
        .protocol(g.protocol)
        .multipath_strategy(g.strategy)
        .port_direction(g.ports)
        .first_ttl(g.first_ttl)
        .max_ttl(g.max_ttl)
        .max_inflight(g.max_inflight)
        .initial_sequence(g.initial_sequence)
        .packet_size(g.packet_size)
        .privilege_mode(if g.unprivileged { PrivilegeMode::Unprivileged } else { PrivilegeMode::Privileged })
        .icmp_extension_parse_mode(if g.ext { IcmpExtensionParseMode::Enabled } else { IcmpExtensionParseMode::Disabled })
        .read_timeout(read_timeout)
        .min_round_duration(min_round)
        .max_round_duration(max_round)
        .grace_duration(grace)
        .tcp_connect_timeout(connect)
        .max_rounds(Some(rounds))
        .build();
    let tracer = match built {
        Ok(t) => t,
        Err(e) => return Ok(Err(format!("rejected: {e}"))),
    };
    // a simulated network in the tracer's family/protocol; a 3-hop path or total silence
    let proto = match g.protocol {
        Protocol::Icmp => simnet::Proto::Icmp,
        Protocol::Udp => simnet::Proto::Udp,
        Protocol::Tcp => simnet::Proto::Tcp,
    };
    let cell = drive::Cell { proto, v6: g.v6, strategy: g.strategy, ports: drive::Ports::FixedSrc, privileged: !g.unprivileged, ext: g.ext };
    let p = drive::TraceParams { initial_sequence: g.initial_sequence, ..drive::TraceParams::default() };
    let topo = drive::topo_named(&cell, if respond { "L3" } else { "silent-all" });
    let mut net = drive::net_cfg(&cell, &p, topo, Menu::default());
    net.fixed_sport = g.ports.src().map(|p| p.0);
    net.fixed_dport = g.ports.dest().map(|p| p.0);
    simnet::install(net, Chooser::new(&[], 0));
    let r = mc::catch(|| tracer.verif_run_with::<SimSocket, _>(src_cfg, |_| {}));
    let snap = mc::catch(|| {
        let s = tracer.snapshot();
        let _ = s.hops().len();
        let _ = s.target_hop(trippy_core::State::default_flow_id()).ttl();
    });
    let _ = simnet::take();
    vclock::set(None);
    match (r, snap) {
        (Err(p), _) | (_, Err(p)) => Err(p),
        (Ok(Ok(())), _) => Ok(Ok(())),
        (Ok(Err(e)), _) => Ok(Err(format!("run error: {e:?}"))),
    }
}

fn part_b(tier: Tier, findings: &Mutex<Findings>) -> serde_json::Value {
    let mut grid = vec![];
    let ports = [PortDirection::None, PortDirection::new_fixed_src(5000), PortDirection::new_fixed_dest(3500), PortDirection::new_fixed_both(5000, 3500)];
    for protocol in [Protocol::Icmp, Protocol::Udp, Protocol::Tcp] {
        for strategy in [MultipathStrategy::Classic, MultipathStrategy::Paris, MultipathStrategy::Dublin] {
            for p in ports {
                for v6 in [false, true] {
                    for first_ttl in [0u8, 1, 2, 254, 255] {
                        for max_ttl in [0u8, 1, 3, 254, 255] {
                            for max_inflight in [0u8, 1, 24, 255] {
                                for initial_sequence in [0u16, 33434, 64511, 64512, 65535] {
                                    for packet_size in [0u16, 27, 28, 47, 48, 84, 1024, 1025] {
                                        for unprivileged in [false, true] {
                                            let (exts, profiles): (&[bool], &[u8]) = if tier == Tier::Thorough { (&[false, true], &[0, 1]) } else { (&[false], &[0]) };
                                            for &ext in exts {
                                                for &profile in profiles {
                                                    // quick: the 8 packet sizes x 5 sequences are paired rather than crossed
                                                    if tier == Tier::Quick && (usize::from(packet_size) / 3 + usize::from(initial_sequence) / 7) % 4 != 0 && !(packet_size == 84 && initial_sequence == 33434) {
                                                        continue;
                                                    }
                                                    grid.push(Grid { protocol, strategy, ports: p, v6, first_ttl, max_ttl, max_inflight, initial_sequence, packet_size, unprivileged, ext, profile, src_other_family: false });
                                                }
                                            }
                                        }
                                    }
                                }
                            }
                        }
                    }
                }
            }
        }
    }
    // long runs across the sequence wrap-around(s): every protocol x strategy x port direction x
    // family x privilege x initial sequence, 254 probes per round, 12 rounds, silent network
    let grid_points = grid.len();
    for protocol in [Protocol::Icmp, Protocol::Udp, Protocol::Tcp] {
        for strategy in [MultipathStrategy::Classic, MultipathStrategy::Paris, MultipathStrategy::Dublin] {
            for p in ports {
                for v6 in [false, true] {
                    for unprivileged in [false, true] {
                        for initial_sequence in [0u16, 33434, 63000, 64000, 64511] {
                            for ext in [false, true] {
                                grid.push(Grid { protocol, strategy, ports: p, v6, first_ttl: 1, max_ttl: 254, max_inflight: 255, initial_sequence, packet_size: if v6 { 96 } else { 84 }, unprivileged, ext, profile: 2, src_other_family: false });
                            }
                        }
                    }
                }
            }
        }
    }
    let long_runs = grid.len() - grid_points;
    // the source address is a builder parameter too: every protocol x strategy x port direction x
    // family x privilege with a (bindable) source address of the other family
    for protocol in [Protocol::Icmp, Protocol::Udp, Protocol::Tcp] {
        for strategy in [MultipathStrategy::Classic, MultipathStrategy::Paris, MultipathStrategy::Dublin] {
            for p in ports {
                for v6 in [false, true] {
                    for unprivileged in [false, true] {
                        grid.push(Grid { protocol, strategy, ports: p, v6, first_ttl: 1, max_ttl: 3, max_inflight: 24, initial_sequence: 33434, packet_size: if v6 { 96 } else { 84 }, unprivileged, ext: false, profile: 0, src_other_family: true });
                    }
                }
            }
        }
    }
    let mixed_family = grid.len() - grid_points - long_runs;
    let stats = Mutex::new((0u64, 0u64, 0u64, 0u64));
    let chunk = 256;
    let nchunks = grid.len().div_ceil(chunk);
    mc::par_for(nchunks, mc::workers(), |ci| {
        let mut local: Vec<Finding> = vec![];
        let (mut accepted, mut rejected, mut ran_ok, mut ran_err) = (0u64, 0u64, 0u64, 0u64);
        for g in &grid[ci * chunk..((ci + 1) * chunk).min(grid.len())] {
            for respond in [true, false] {
                match run_grid(g, respond) {
                    Ok(Ok(())) => {
                        accepted += 1;
                        ran_ok += 1;
                    }
                    Ok(Err(e)) if e.starts_with("rejected") => rejected += 1,
                    Ok(Err(_)) => {
                        accepted += 1;
                        ran_err += 1;
                    }
                    Err(p) => {
                        accepted += 1;
                        let class = format!(
                            "{:?}/{:?}/{}{}{}",
                            g.protocol,
                            g.strategy,
                            match g.ports {
                                PortDirection::None => "ports-none",
                                PortDirection::FixedSrc(_) => "fixed-src",
                                PortDirection::FixedDest(_) => "fixed-dest",
                                PortDirection::FixedBoth(..) => "fixed-both",
                            },
                            if g.first_ttl == 0 { "/first-ttl-0" } else { "" },
                            if g.max_ttl == 255 || g.first_ttl == 255 { "/ttl-255" } else { "" }
                        );
                        let class = if g.src_other_family { "source-address-of-the-other-family".to_string() } else { class };
                        local.push(Finding {
                            key: format!("accepted-config-crashes:{}:{class}", p.key()),
                            detail: format!("Builder::build accepted {g:?} (network responding: {respond}) and the run panicked: {} at {}:{}", p.message, p.file, p.line),
                            replay: json!({"check":"C16","part":"b","grid":format!("{g:?}"),"respond":respond}),
                            weight: (usize::from(g.max_ttl) + usize::from(g.max_inflight), usize::from(g.packet_size)),
                            count: 1,
                        });
                    }
                }
            }
        }
        let mut s = stats.lock().unwrap();
        s.0 += accepted;
        s.1 += rejected;
        s.2 += ran_ok;
        s.3 += ran_err;
        drop(s);
        if !local.is_empty() {
            let mut g = findings.lock().unwrap();
            for f in local {
                match g.get_mut(&f.key) {
                    Some(o) => {
                        o.count += 1;
                        if f.weight < o.weight {
                            let c = o.count;
                            *o = f;
                            o.count = c;
                        }
                    }
                    None => {
                        g.insert(f.key.clone(), f);
                    }
                }
            }
        }
    });
    let s = stats.into_inner().unwrap();
    json!({"builder_grid_points": grid_points, "long_runs_across_sequence_wrap": long_runs, "source_address_of_other_family": mixed_family, "runs": s.0 + s.1, "accepted_runs": s.0, "rejected_up_front": s.1, "ran_to_completion": s.2, "ended_with_error_value": s.3})
}

pub fn run(args: &CheckArgs) -> i32 {
    let tier = args.tier;
    let mut rep = Report::new("C16", tier, "exploration");
    let findings: Mutex<Findings> = Mutex::new(Findings::new());
    let a = part_a(tier, &findings);
    let b = part_b(tier, &findings);
    rep.merge_findings(findings.into_inner().unwrap());
    let evals = a["configurations_compared"].as_u64().unwrap_or(0) + b["runs"].as_u64().unwrap_or(0);
    rep.set("evaluations", json!(evals));
    rep.set("distinct_nontrivial", json!(a["accepted_and_equal"].as_u64().unwrap_or(0) + b["accepted_runs"].as_u64().unwrap_or(0)));
    rep.set("precedence", a);
    rep.set("accepted_implies_runnable", b);
    rep.set("rule", json!("(a) 116 layered options (39 scalars, 5 flags, 34 theme colours, 38 key bindings), two valid non-default values each: EVERY pair of options x EVERY pair of placements {absent, file, CLI, both (file v1/CLI v2 and swapped)} (flags: file {absent,true,false} x CLI {absent,present}) in two contexts and, in the richer context, three backgrounds for the remaining options (all absent / all in the file / all on the CLI), through the real clap parser + TOML deserialiser + build_config; oracle: the effective TrippyConfig (Debug of every field) equals the one obtained by giving each option's effective value (CLI, else file, else default) on the command line only - or both are rejected; every option is first shown to have an effect; + single-option sweep: every (file value, CLI value) pair over each scalar option's value domain (the CLI value also spelt by its shortcut flag --icmp/--udp/--tcp/--ipv4/--ipv6 where one exists) (all enumeration members; numeric options {{0,1,7,28,64,254,255,256,1024,1025,33434,64511,64512,65535}}; durations {{0ms..1000s}}), incl. invalid values and sentinels such as 0 = auto (a file the TOML deserialiser rejects outright is not a configuration file and is skipped). (b) Builder grid protocol x strategy x port direction x family x first_ttl {0,1,2,254,255} x max_ttl {0,1,3,254,255} x max_inflight {0,1,24,255} x initial_sequence {0,33434,64511,64512,65535} x packet_size {0,27,28,47,48,84,1024,1025} x privilege (thorough: x extension mode x timing profile; quick pairs sizes with sequences): every configuration Builder::build accepts is run over the simulated network with and without responses; + long runs (254 probes per round, 12 rounds, initial sequence {0,33434,63000,64000,64511}) across every sequence wrap-around for every protocol x strategy x port direction x family x privilege x extension mode; + a (bindable) source address of the other address family than the target for every protocol x strategy x port direction x family x privilege; a panic is a violation, an Err value is not. distinct_nontrivial = accepted comparisons + accepted runs"));
    rep.sample(json!({"part": "a", "pair": ["first-ttl", "tui-geoip-mode"], "placements": "file=v1 & CLI=v2 ; file only", "background": "all others in the file"}));
    rep.sample(json!({"part": "b", "grid": "Udp/Dublin/FixedBoth/v6 first_ttl=1 max_ttl=3 max_inflight=24 seq=64511 size=48"}));
    rep.assumptions = vec!["the CLI->builder mapping of app.rs::start_tracer is not exercised (it spawns real sockets); the builder grid covers its image".into(), vcore::c01::ASSUME.into()];
    rep.finish()
}
