//! The TUI under test: a real `TuiApp` over un-started real `Tracer`s whose state is fed by
//! `verif_apply_round`, drawn with the real `render` on a ratatui `TestBackend`.
//!
//! `press(binding)` replays what one key press does in `run_app` (same mode gating); the dispatch
//! is a data table which a start-up self-check compares with the source text of `run_app`, so
//! silent drift becomes a loud machinery failure.

use crate::mmdb::{self, GeoRec};
use clap::Parser;
use ratatui::backend::TestBackend;
use ratatui::Terminal;
use std::net::{IpAddr, Ipv4Addr};
use trippy_core::{Builder, FlowId, Tracer};
use trippy_dns::{AsInfo, DnsEntry, DnsResolver, Resolved};
use trippy_tui::verif::{self as tv, AddressMode, Args, GeoIpLookup, TraceInfo, TrippyConfig, TuiApp};
use vcore::mc::{self, Chooser};
use vcore::refstate::RoundRec;
use vcore::simnet::{self, SimSocket};
use vcore::stateexp::{self, Out, Shape};
use vcore::{drive, vclock};

pub const SRC: Ipv4Addr = Ipv4Addr::new(10, 0, 0, 1);
pub const SRC_HOST: &str = "zqsrch.example";

pub fn hop_addr(sel: u8, ttl: u8) -> IpAddr {
    IpAddr::V4(Ipv4Addr::new(10, 70 + ttl, ttl, 1 + sel))
}

pub fn target_addr(i: usize) -> IpAddr {
    IpAddr::V4(Ipv4Addr::new(10, 9, 9, 9 + i as u8))
}

/// Hops 3 and 4 sit in the same building: all their addresses resolve to one GeoIP location
/// (consecutive hops in one city are the rule in real databases).
pub const fn geo_key(sel: u8, ttl: u8) -> (u8, u8) {
    if ttl == 3 || ttl == 4 {
        (0, 3)
    } else {
        (sel, ttl)
    }
}

/// Everything that must not reach the screen for a hidden hop (6+ character markers).
pub fn secrets(sel: u8, ttl: u8) -> Vec<String> {
    let (own, osel) = (ttl, sel);
    let (sel, ttl) = geo_key(sel, ttl);
    vec![
        format!("10.{}.{}.", 70 + own, own),
        format!("zqh{own}v{osel}k"),
        format!("64{own}{osel}01"),
        format!("ZQAS{own}V{osel}"),
        format!("zqrg{own}v{osel}"),
        format!("Zqcy{ttl}v{sel}"),
        format!("Zqrn{ttl}v{sel}"),
        format!("Zqld{ttl}v{sel}"),
        format!("Zqct{ttl}v{sel}"),
        format!("4{ttl}.123{sel}"),
        format!("1{ttl}.456{sel}"),
        format!("ZP{ttl}{sel}Q7"),
    ]
}

fn geo(sel: u8, ttl: u8) -> GeoRec {
    let (sel, ttl) = geo_key(sel, ttl);
    GeoRec {
        city: format!("Zqcy{ttl}v{sel}ville"),
        region: format!("Zqrn{ttl}v{sel}shire"),
        country: format!("Z{ttl}"),
        country_name: format!("Zqld{ttl}v{sel}land"),
        continent_name: format!("Zqct{ttl}v{sel}ia"),
        latitude: format!("4{ttl}.123{sel}"),
        longitude: format!("1{ttl}.456{sel}"),
        radius: "50".into(),
        postal_code: format!("ZP{ttl}{sel}Q7"),
    }
}

#[derive(Debug, Clone, PartialEq, Eq, Hash)]
pub struct WorldCfg {
    pub targets: usize,
    pub max_flows: usize,
    pub first_ttl: u8,
    pub size: (u16, u16),
    /// extra command line arguments (display modes, privacy, columns ...)
    pub extra_args: Vec<String>,
    pub geoip: bool,
}

impl Default for WorldCfg {
    fn default() -> Self {
        Self { targets: 1, max_flows: 3, first_ttl: 1, size: (80, 24), extra_args: vec![], geoip: true }
    }
}

/// The catalogue of trace updates.
#[derive(Debug, Clone, Copy, PartialEq, Eq, Hash)]
pub enum TraceEv {
    /// 3-hop path, all answering
    Path3,
    /// shorter path (2 hops)
    Path2,
    /// other ECMP branch at hop 2 (new flow; second address on hop 2 of the default flow)
    Branch,
    /// nothing answers (path length 0)
    Silent,
    /// nothing answers in a round of a tracer that found its target (distance 3) in an earlier
    /// round: the strategy carries the target distance over, so the round is published with path
    /// length 3 and three awaited probes.  On an empty state this is what a user sees after
    /// "target found; clear trace data; the network goes silent".
    SilentKnown,
    /// failed probes
    Failed,
    /// 5-hop path with an unknown hop
    Path5,
    /// fatal tracer error
    Error,
}

pub const TRACE_EVENTS: &[TraceEv] = &[TraceEv::Path3, TraceEv::Path2, TraceEv::Branch, TraceEv::Silent, TraceEv::SilentKnown, TraceEv::Failed, TraceEv::Path5, TraceEv::Error];

pub struct World {
    pub cfg: WorldCfg,
    pub app: TuiApp,
    pub tracers: Vec<Tracer>,
    pub term: Terminal<TestBackend>,
    pub rounds_applied: Vec<usize>,
    pub config: TrippyConfig,
}

fn mmdb_path() -> std::path::PathBuf {
    let p = std::env::temp_dir().join(format!("vtui-geoip-{}.mmdb", std::process::id()));
    static ONCE: std::sync::Once = std::sync::Once::new();
    ONCE.call_once(|| {
        let mut recs = vec![];
        for ttl in 1..=6u8 {
            // hop 2 has no GeoIP record at all (as private / CGNAT hops in real databases)
            if ttl == 2 {
                continue;
            }
            for sel in 0..3u8 {
                if let IpAddr::V4(a) = hop_addr(sel, ttl) {
                    recs.push((a, geo(sel, ttl)));
                }
            }
        }
        for i in 0..2 {
            if let IpAddr::V4(a) = target_addr(i) {
                recs.push((a, GeoRec { city: "Targetville".into(), region: "Tgt".into(), country: "TG".into(), country_name: "Targetland".into(), continent_name: "Tgtia".into(), latitude: "51.5".into(), longitude: "0.12".into(), radius: "10".into(), postal_code: "TG1".into() }));
            }
        }
        recs.push((SRC, GeoRec { city: "Srcville".into(), region: "Src".into(), country: "SR".into(), country_name: "Srcland".into(), continent_name: "Srcia".into(), latitude: "10.5".into(), longitude: "20.5".into(), radius: "10".into(), postal_code: "SR1".into() }));
        std::fs::write(&p, mmdb::build(&recs)).expect("MACHINERY: cannot write the GeoIP fixture");
    });
    p
}

pub fn remove_fixture() {
    let _ = std::fs::remove_file(std::env::temp_dir().join(format!("vtui-geoip-{}.mmdb", std::process::id())));
}

impl World {
    pub fn new(cfg: &WorldCfg) -> Self {
        vclock::set(Some(5_000_000_000));
        // the effective configuration through the real CLI parser and build_config
        let mut argv: Vec<String> = vec!["trip".into()];
        for i in 0..cfg.targets {
            argv.push(target_addr(i).to_string());
        }
        if cfg.targets == 1 {
            // flows need a multipath strategy; several targets are only allowed for ICMP
            argv.extend(["--udp", "--multipath-strategy", "dublin"].iter().map(ToString::to_string));
        }
        argv.extend(["--dns-resolve-method", "cloudflare", "--dns-lookup-as-info"].iter().map(ToString::to_string));
        argv.extend(["--max-flows".to_string(), cfg.max_flows.to_string(), "--first-ttl".to_string(), cfg.first_ttl.to_string()]);
        if cfg.geoip {
            argv.extend(["--geoip-mmdb-file".to_string(), mmdb_path().display().to_string()]);
        }
        argv.extend(cfg.extra_args.iter().cloned());
        let args = Args::try_parse_from(&argv).unwrap_or_else(|e| panic!("MACHINERY: CLI rejected {argv:?}: {e}"));
        let config = tv::config_from_str(args, "", true, false, 4242).unwrap_or_else(|e| panic!("MACHINERY: config rejected {argv:?}: {e}"));
        let tui_config = tv::make_tui_config(&config, "en".to_string());
        let resolver = DnsResolver::start(trippy_dns::Config::new(config.dns_resolve_method, config.addr_family, config.dns_timeout, config.dns_ttl)).expect("MACHINERY: resolver");
        // own the DNS nondeterminism: every address is pre-seeded (no background lookup ever runs)
        let seed = |addr: IpAddr, host: String, asn: String, name: String, reg: String, prefix: String, cc: String| {
            resolver.verif_seed(addr, DnsEntry::Resolved(Resolved::WithAsInfo(addr, vec![host], AsInfo { asn, prefix, cc, registry: reg, allocated: "1999-02-25".into(), name })));
        };
        for ttl in 1..=6u8 {
            for sel in 0..3u8 {
                seed(hop_addr(sel, ttl), format!("zqh{ttl}v{sel}k.example"), format!("64{ttl}{sel}01"), format!("ZQAS{ttl}V{sel}NET"), format!("zqrg{ttl}v{sel}"), format!("10.{}.0.0/16", 70 + ttl), format!("Q{ttl}"));
            }
        }
        for i in 0..2 {
            seed(target_addr(i), format!("target{i}.example"), "64999".into(), "TARGETNET".into(), "tgtreg".into(), "10.9.0.0/16".into(), "TG".into());
        }
        seed(IpAddr::V4(SRC), SRC_HOST.into(), "64000".into(), "SRCNET".into(), "srcreg".into(), "10.0.0.0/16".into(), "SR".into());
        let geoip = match &config.geoip_mmdb_file {
            Some(p) => GeoIpLookup::from_file(p, "en".into()).expect("MACHINERY: GeoIP fixture unreadable"),
            None => GeoIpLookup::empty(),
        };
        // tracers: built as app.rs::start_tracer builds them, but never spawned
        let mut tracers = vec![];
        let mut infos = vec![];
        for i in 0..cfg.targets {
            let tracer = Builder::new(target_addr(i))
                .source_addr(Some(IpAddr::V4(SRC)))
                .privilege_mode(config.privilege_mode)
                .protocol(config.protocol)
                .packet_size(config.packet_size)
                .payload_pattern(config.payload_pattern)
                .tos(config.tos)
                .icmp_extension_parse_mode(config.icmp_extension_parse_mode)
                .read_timeout(config.read_timeout)
                .tcp_connect_timeout(config.min_round_duration)
                .trace_identifier(4242 + i as u16)
                .max_rounds(Some(1))
                .first_ttl(config.first_ttl)
                .max_ttl(config.max_ttl)
                .grace_duration(config.grace_duration)
                .max_inflight(config.max_inflight)
                .initial_sequence(config.initial_sequence)
                .multipath_strategy(config.multipath_strategy)
                .port_direction(config.port_direction)
                .min_round_duration(std::time::Duration::from_millis(20))
                .max_round_duration(std::time::Duration::from_millis(20))
                .max_flows(config.max_flows())
                .max_samples(config.max_samples)
                .build()
                .expect("MACHINERY: tracer build");
            // one round over a silent simulated network sets the source address; then start clean
            let cell = if config.protocol == trippy_core::Protocol::Icmp {
                drive::Cell { proto: simnet::Proto::Icmp, v6: false, strategy: config.multipath_strategy, ports: drive::Ports::None, privileged: true, ext: false }
            } else {
                drive::Cell { proto: simnet::Proto::Udp, v6: false, strategy: config.multipath_strategy, ports: drive::Ports::FixedSrc, privileged: true, ext: false }
            };
            let p = drive::TraceParams { rounds: 1, ..drive::TraceParams::default() };
            let mut net = drive::net_cfg(&cell, &p, drive::topo_named(&cell, "silent-all"), simnet::Menu::default());
            net.src = IpAddr::V4(SRC);
            net.dst = target_addr(i);
            simnet::install(net, Chooser::new(&[], 0));
            let r = tracer.verif_run_with::<SimSocket, _>(IpAddr::V4(SRC), |_| {});
            let _ = simnet::take();
            vclock::set(Some(5_000_000_000));
            assert!(r.is_ok(), "MACHINERY: warm-up run failed: {r:?}");
            tracer.clear();
            infos.push(TraceInfo::new(tracer.clone(), target_addr(i).to_string()));
            tracers.push(tracer);
        }
        let app = TuiApp::new(tui_config, resolver, geoip, infos);
        let term = Terminal::new(TestBackend::new(cfg.size.0, cfg.size.1)).expect("MACHINERY: terminal");
        let mut w = Self { cfg: cfg.clone(), app, tracers, term, rounds_applied: vec![0; cfg.targets], config };
        // the GeoIP cache returns None on the first lookup of an address: warm it up
        if cfg.geoip {
            for ttl in 1..=6u8 {
                for sel in 0..3u8 {
                    let _ = w.app.geoip_lookup.lookup(hop_addr(sel, ttl));
                }
            }
            for i in 0..2 {
                let _ = w.app.geoip_lookup.lookup(target_addr(i));
            }
        }
        w
    }

    /// The top of one turn of `run_app`.
    pub fn loop_top(&mut self) {
        if self.app.frozen_start.is_none() {
            self.app.snapshot_trace_data();
            self.app.clamp_selected_hop();
            self.app.update_order_flow_counts();
        }
    }

    pub fn draw(&mut self) {
        let app = &mut self.app;
        self.term.draw(|f| tv::render(f, app)).expect("MACHINERY: draw");
    }

    pub fn resize(&mut self, w: u16, h: u16) {
        self.term.backend_mut().resize(w, h);
        let _ = self.term.resize(ratatui::layout::Rect::new(0, 0, w, h));
    }

    pub fn screen(&self) -> Vec<String> {
        let buf = self.term.backend().buffer();
        let area = buf.area;
        (0..area.height)
            .map(|y| (0..area.width).map(|x| buf[(x, y)].symbol()).collect::<String>())
            .collect()
    }

    pub fn round_for(&self, ev: TraceEv, trace: usize) -> Option<RoundRec> {
        let f = self.cfg.first_ttl;
        let c = |sel: u8| Out::C(3_000_000, sel, Some(0), None);
        let outs = match ev {
            TraceEv::Path3 => vec![c(0), c(0), c(0)],
            TraceEv::Path2 => vec![c(0), c(0)],
            TraceEv::Branch => vec![c(0), c(1), c(0)],
            TraceEv::Silent | TraceEv::SilentKnown => vec![Out::A, Out::A, Out::A],
            TraceEv::Failed => vec![Out::F, c(0), Out::F],
            TraceEv::Path5 => vec![c(0), Out::A, c(2), c(0), c(0)],
            TraceEv::Error => return None,
        };
        let shape = Shape { first_ttl: f, outs, largest_ttl: if ev == TraceEv::SilentKnown { Some(f + 2) } else { None } };
        let n = self.rounds_applied[trace];
        Some(stateexp::build_with(&shape, n, (n as u16).wrapping_mul(8), &|sel, ttl| hop_addr(sel, ttl)))
    }

    pub fn trace_event(&mut self, ev: TraceEv, trace: usize) {
        let t = trace.min(self.tracers.len() - 1);
        match self.round_for(ev, t) {
            Some(r) => {
                self.tracers[t].verif_apply_round(&trippy_core::Round::new(&r.probes, trippy_core::TimeToLive(r.largest_ttl), trippy_core::CompletionReason::TargetFound));
                self.rounds_applied[t] += 1;
            }
            None => {
                let _ = self.tracers[t].verif_handle_error(trippy_core::Error::Other("simulated fatal error".into()));
            }
        }
    }

    /// One key press, dispatched exactly as `run_app` dispatches it.
    pub fn press(&mut self, binding: &str) -> bool {
        let mode = if self.app.show_help {
            Mode::Help
        } else if self.app.show_settings {
            Mode::Settings
        } else {
            Mode::Main
        };
        for (m, bindings, acts) in table() {
            if m == mode && bindings.contains(&binding) {
                for a in acts {
                    self.act(a);
                }
                return true;
            }
        }
        false
    }

    fn act(&mut self, a: &str) {
        let app = &mut self.app;
        match a {
            "toggle_help" => app.toggle_help(),
            "toggle_settings" => app.toggle_settings(),
            "show_settings_columns(0)" => app.show_settings_columns(0),
            "show_settings_columns(1)" => app.show_settings_columns(1),
            "show_settings_columns(2)" => app.show_settings_columns(2),
            "show_settings_columns(3)" => app.show_settings_columns(3),
            "show_settings_columns(4)" => app.show_settings_columns(4),
            "show_settings_columns(5)" => app.show_settings_columns(5),
            "show_settings_columns(6)" => app.show_settings_columns(6),
            "previous_settings_tab" => app.previous_settings_tab(),
            "next_settings_tab" => app.next_settings_tab(),
            "next_settings_item" => app.next_settings_item(),
            "previous_settings_item" => app.previous_settings_item(),
            "toggle_column_visibility" => app.toggle_column_visibility(),
            "move_column_down" => app.move_column_down(),
            "move_column_up" => app.move_column_up(),
            "next_hop" => app.next_hop(),
            "previous_hop" => app.previous_hop(),
            "previous_flow|previous_trace" => {
                if app.show_flows {
                    app.previous_flow();
                } else {
                    app.previous_trace();
                }
            }
            "next_flow|next_trace" => {
                if app.show_flows {
                    app.next_flow();
                } else {
                    app.next_trace();
                }
            }
            "next_hop_address" => app.next_hop_address(),
            "previous_hop_address" => app.previous_hop_address(),
            "address_mode=Ip" => app.tui_config.address_mode = AddressMode::Ip,
            "address_mode=Host" => app.tui_config.address_mode = AddressMode::Host,
            "address_mode=Both" => app.tui_config.address_mode = AddressMode::Both,
            "toggle_freeze" => app.toggle_freeze(),
            "toggle_chart" => app.toggle_chart(),
            "toggle_map" => app.toggle_map(),
            "toggle_flows" => app.toggle_flows(),
            "expand_privacy" => app.expand_privacy(),
            "contract_privacy" => app.contract_privacy(),
            "contract_hosts_min" => app.contract_hosts_min(),
            "expand_hosts_max" => app.expand_hosts_max(),
            "contract_hosts" => app.contract_hosts(),
            "expand_hosts" => app.expand_hosts(),
            "zoom_in" => app.zoom_in(),
            "zoom_out" => app.zoom_out(),
            "clear" => app.clear(),
            "clear_trace_data" => app.clear_trace_data(),
            "resolver.flush" => {
                app.resolver.flush();
                // own the nondeterminism: the cache is re-seeded at once (a pending entry would
                // start a background lookup)
                reseed(&app.resolver);
            }
            "toggle_asinfo" => {
                app.toggle_asinfo();
                reseed(&app.resolver);
            }
            "toggle_hop_details" => app.toggle_hop_details(),
            "quit" => {}
            other => panic!("MACHINERY: unknown action {other}"),
        }
    }

    /// Canonical key: UI fields verbatim, trace state by shape.
    pub fn key(&self) -> u64 {
        let a = &self.app;
        let shape = |st: &trippy_core::State| -> Vec<(u64, usize, Vec<(u8, usize)>, u8)> {
            let mut ids: Vec<u64> = vec![0];
            ids.extend(st.flows().iter().map(|(_, id)| id.0));
            ids.iter()
                .map(|id| {
                    let f = FlowId(*id);
                    let rank = st.flows().iter().filter(|(_, o)| st.round_count(*o) > st.round_count(f)).count();
                    (*id, rank, st.hops_for_flow(f).iter().map(|h| (h.ttl(), h.addr_count())).collect(), st.target_hop(f).ttl())
                })
                .collect()
        };
        let live: Vec<_> = self.tracers.iter().map(|t| {
            let s = t.snapshot();
            (shape(&s), s.error().is_some())
        }).collect();
        mc::hash64(&(
            (a.table_state.selected(), a.setting_table_state.selected(), a.trace_selected, a.settings_tab_selected, a.selected_hop_address, a.selected_flow.0),
            a.flow_counts.iter().map(|(f, _)| f.0).collect::<Vec<_>>(),
            (a.show_help, a.show_settings, a.show_hop_details, a.show_flows, a.show_chart, a.show_map, a.frozen_start.is_some(), a.zoom_factor),
            (a.tui_config.privacy_max_ttl, format!("{:?}", a.tui_config.address_mode), a.tui_config.lookup_as_info, a.tui_config.max_addrs),
            format!("{:?}", a.tui_config.tui_columns),
            (shape(&a.selected_tracer_data), a.selected_tracer_data.error().is_some()),
            live,
        ))
    }
}

fn reseed(resolver: &DnsResolver) {
    let seed = |addr: IpAddr, host: String, asn: String, name: String, reg: String, prefix: String, cc: String| {
        resolver.verif_seed(addr, DnsEntry::Resolved(Resolved::WithAsInfo(addr, vec![host], AsInfo { asn, prefix, cc, registry: reg, allocated: "1999-02-25".into(), name })));
    };
    for ttl in 1..=6u8 {
        for sel in 0..3u8 {
            seed(hop_addr(sel, ttl), format!("zqh{ttl}v{sel}k.example"), format!("64{ttl}{sel}01"), format!("ZQAS{ttl}V{sel}NET"), format!("zqrg{ttl}v{sel}"), format!("10.{}.0.0/16", 70 + ttl), format!("Q{ttl}"));
        }
    }
    for i in 0..2 {
        seed(target_addr(i), format!("target{i}.example"), "64999".into(), "TARGETNET".into(), "tgtreg".into(), "10.9.0.0/16".into(), "TG".into());
    }
    seed(IpAddr::V4(SRC), SRC_HOST.into(), "64000".into(), "SRCNET".into(), "srcreg".into(), "10.0.0.0/16".into(), "SR".into());
}

#[derive(Debug, Clone, Copy, PartialEq, Eq, Hash)]
pub enum Mode {
    Help,
    Settings,
    Main,
}

type Row = (Mode, Vec<&'static str>, Vec<&'static str>);

/// The dispatch table of `run_app`: (mode, bindings of the branch, what the branch does).
pub fn table() -> Vec<Row> {
    let cols = |m: Mode, pre: &[&'static str]| -> Vec<Row> {
        ["toggle_settings_tui", "toggle_settings_trace", "toggle_settings_dns", "toggle_settings_geoip", "toggle_settings_bindings", "toggle_settings_theme", "toggle_settings_columns"]
            .iter()
            .enumerate()
            .map(|(i, b)| {
                let mut acts: Vec<&'static str> = pre.to_vec();
                acts.push(["show_settings_columns(0)", "show_settings_columns(1)", "show_settings_columns(2)", "show_settings_columns(3)", "show_settings_columns(4)", "show_settings_columns(5)", "show_settings_columns(6)"][i]);
                (m, vec![*b], acts)
            })
            .collect()
    };
    let mut t: Vec<Row> = vec![];
    // help dialog
    t.push((Mode::Help, vec!["toggle_help", "toggle_help_alt", "clear_selection", "quit"], vec!["toggle_help"]));
    t.push((Mode::Help, vec!["toggle_settings"], vec!["toggle_help", "toggle_settings"]));
    t.extend(cols(Mode::Help, &["toggle_help"]));
    // settings dialog
    t.push((Mode::Settings, vec!["toggle_settings", "clear_selection", "quit"], vec!["toggle_settings"]));
    t.extend(cols(Mode::Settings, &[]));
    t.push((Mode::Settings, vec!["previous_trace"], vec!["previous_settings_tab"]));
    t.push((Mode::Settings, vec!["next_trace"], vec!["next_settings_tab"]));
    t.push((Mode::Settings, vec!["next_hop"], vec!["next_settings_item"]));
    t.push((Mode::Settings, vec!["previous_hop"], vec!["previous_settings_item"]));
    t.push((Mode::Settings, vec!["toggle_chart"], vec!["toggle_column_visibility"]));
    t.push((Mode::Settings, vec!["next_hop_address"], vec!["move_column_down"]));
    t.push((Mode::Settings, vec!["previous_hop_address"], vec!["move_column_up"]));
    // main screen
    t.push((Mode::Main, vec!["toggle_help", "toggle_help_alt"], vec!["toggle_help"]));
    t.push((Mode::Main, vec!["toggle_settings"], vec!["toggle_settings"]));
    t.extend(cols(Mode::Main, &[]));
    t.push((Mode::Main, vec!["next_hop"], vec!["next_hop"]));
    t.push((Mode::Main, vec!["previous_hop"], vec!["previous_hop"]));
    t.push((Mode::Main, vec!["previous_trace"], vec!["previous_flow|previous_trace"]));
    t.push((Mode::Main, vec!["next_trace"], vec!["next_flow|next_trace"]));
    t.push((Mode::Main, vec!["next_hop_address"], vec!["next_hop_address"]));
    t.push((Mode::Main, vec!["previous_hop_address"], vec!["previous_hop_address"]));
    t.push((Mode::Main, vec!["address_mode_ip"], vec!["address_mode=Ip"]));
    t.push((Mode::Main, vec!["address_mode_host"], vec!["address_mode=Host"]));
    t.push((Mode::Main, vec!["address_mode_both"], vec!["address_mode=Both"]));
    t.push((Mode::Main, vec!["toggle_freeze"], vec!["toggle_freeze"]));
    t.push((Mode::Main, vec!["toggle_chart"], vec!["toggle_chart"]));
    t.push((Mode::Main, vec!["toggle_map"], vec!["toggle_map"]));
    t.push((Mode::Main, vec!["toggle_flows"], vec!["toggle_flows"]));
    t.push((Mode::Main, vec!["expand_privacy"], vec!["expand_privacy"]));
    t.push((Mode::Main, vec!["contract_privacy"], vec!["contract_privacy"]));
    t.push((Mode::Main, vec!["contract_hosts_min"], vec!["contract_hosts_min"]));
    t.push((Mode::Main, vec!["expand_hosts_max"], vec!["expand_hosts_max"]));
    t.push((Mode::Main, vec!["contract_hosts"], vec!["contract_hosts"]));
    t.push((Mode::Main, vec!["expand_hosts"], vec!["expand_hosts"]));
    t.push((Mode::Main, vec!["chart_zoom_in"], vec!["zoom_in"]));
    t.push((Mode::Main, vec!["chart_zoom_out"], vec!["zoom_out"]));
    t.push((Mode::Main, vec!["clear_trace_data"], vec!["clear", "clear_trace_data"]));
    t.push((Mode::Main, vec!["clear_dns_cache"], vec!["resolver.flush"]));
    t.push((Mode::Main, vec!["clear_selection"], vec!["clear"]));
    t.push((Mode::Main, vec!["toggle_as_info"], vec!["toggle_asinfo"]));
    t.push((Mode::Main, vec!["toggle_hop_details"], vec!["toggle_hop_details"]));
    t.push((Mode::Main, vec!["quit", "CTRL_C"], vec!["quit"]));
    t.push((Mode::Main, vec!["quit_preserve_screen"], vec!["quit"]));
    t
}

/// All binding names that do something in some mode (the command alphabet).
pub fn alphabet() -> Vec<&'static str> {
    let mut v: Vec<&'static str> = vec![];
    for (_, b, acts) in table() {
        if acts == vec!["quit"] {
            continue;
        }
        for x in b {
            if !v.contains(&x) && x != "CTRL_C" {
                v.push(x);
            }
        }
    }
    v
}

/// Parse the dispatch chain out of the source text of `run_app` and compare it with `table()`.
pub fn self_check() {
    let src = std::fs::read_to_string(format!("{}/crates/trippy-tui/src/frontend.rs", vcore::report::repo_root())).expect("MACHINERY: cannot read frontend.rs");
    let start = src.find("fn run_app").expect("MACHINERY: run_app not found");
    let body = &src[start..];
    // split into the three mode sections
    let h = body.find("if app.show_help {").expect("MACHINERY: help section");
    let s = body.find("} else if app.show_settings {").expect("MACHINERY: settings section");
    let m = body[s..].find("} else if bindings.toggle_help.check(key) || bindings.toggle_help_alt.check(key)").expect("MACHINERY: main section") + s;
    let sections = [(Mode::Help, &body[h..s]), (Mode::Settings, &body[s..m]), (Mode::Main, &body[m..])];
    let mut parsed: Vec<(Mode, Vec<String>, Vec<String>)> = vec![];
    for (mode, text) in sections {
        // branches: a condition made of `bindings.X.check(key)` / `CTRL_C.check(key)` terms followed by a block
        let mut rest = text;
        loop {
            let Some(i) = rest.find(".check(key)") else { break };
            // the condition extends to the next '{'
            let cond_start = rest[..i].rfind(|c: char| c == '{' || c == '}').map_or(0, |p| p + 1);
            let brace = rest[i..].find('{').expect("MACHINERY: branch block") + i;
            let cond = &rest[cond_start..brace];
            let mut binds: Vec<String> = vec![];
            for term in cond.split("||") {
                let term = term.trim().trim_start_matches("else if").trim().trim_start_matches("if").trim();
                if let Some(x) = term.strip_suffix(".check(key)") {
                    binds.push(x.trim().trim_start_matches("bindings.").to_string());
                }
            }
            // block: up to the matching close brace
            let mut depth = 0;
            let mut end = brace;
            for (k, ch) in rest[brace..].char_indices() {
                if ch == '{' {
                    depth += 1;
                } else if ch == '}' {
                    depth -= 1;
                    if depth == 0 {
                        end = brace + k;
                        break;
                    }
                }
            }
            let block = &rest[brace + 1..end];
            let mut acts: Vec<String> = vec![];
            let compact: String = block.split_whitespace().collect::<Vec<_>>().join(" ");
            if compact.contains("if app.show_flows { app.previous_flow(); } else { app.previous_trace(); }") {
                acts.push("previous_flow|previous_trace".into());
            } else if compact.contains("if app.show_flows { app.next_flow(); } else { app.next_trace(); }") {
                acts.push("next_flow|next_trace".into());
            } else {
                for stmt in compact.split(';') {
                    let st = stmt.trim();
                    if let Some(x) = st.strip_prefix("app.tui_config.address_mode = AddressMode::") {
                        acts.push(format!("address_mode={x}"));
                    } else if st == "app.resolver.flush()" {
                        acts.push("resolver.flush".into());
                    } else if let Some(x) = st.strip_prefix("app.") {
                        let x = x.trim_end_matches("()");
                        acts.push(x.to_string());
                    } else if st.starts_with("return Ok(ExitAction::") {
                        acts.push("quit".into());
                    }
                }
            }
            parsed.push((mode, binds, acts));
            rest = &rest[end..];
        }
    }
    let want: Vec<(Mode, Vec<String>, Vec<String>)> = table().into_iter().map(|(m, b, a)| (m, b.iter().map(ToString::to_string).collect(), a.iter().map(ToString::to_string).collect())).collect();
    if parsed != want {
        for (i, (p, w)) in parsed.iter().zip(&want).enumerate() {
            if p != w {
                panic!("MACHINERY: the command table differs from run_app at branch {i}: source has {p:?}, table has {w:?}");
            }
        }
        panic!("MACHINERY: the command table differs from run_app: {} branches in the source, {} in the table", parsed.len(), want.len());
    }
}
