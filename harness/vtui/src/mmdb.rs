//! Minimal MaxMind-DB writer (ipinfo layout) so that the real `GeoIpLookup::from_file` can be
//! driven offline with recognisable per-hop data.

use std::net::Ipv4Addr;

#[derive(Debug, Clone)]
pub struct GeoRec {
    pub city: String,
    pub region: String,
    pub country: String,
    pub country_name: String,
    pub continent_name: String,
    pub latitude: String,
    pub longitude: String,
    pub radius: String,
    pub postal_code: String,
}

fn ctrl(typ: u8, size: usize, out: &mut Vec<u8>) {
    let (t, ext) = if typ <= 7 { (typ, None) } else { (0, Some(typ - 7)) };
    if size < 29 {
        out.push((t << 5) | size as u8);
        if let Some(e) = ext {
            out.push(e);
        }
    } else if size < 29 + 256 {
        out.push((t << 5) | 29);
        if let Some(e) = ext {
            out.push(e);
        }
        out.push((size - 29) as u8);
    } else {
        panic!("MACHINERY: mmdb value too large");
    }
}

fn put_str(s: &str, out: &mut Vec<u8>) {
    ctrl(2, s.len(), out);
    out.extend_from_slice(s.as_bytes());
}

fn put_uint(typ: u8, v: u64, out: &mut Vec<u8>) {
    let bytes = v.to_be_bytes();
    let skip = bytes.iter().take_while(|b| **b == 0).count();
    ctrl(typ, 8 - skip, out);
    out.extend_from_slice(&bytes[skip..]);
}

fn put_map(entries: &[(&str, &str)], out: &mut Vec<u8>) {
    ctrl(7, entries.len(), out);
    for (k, v) in entries {
        put_str(k, out);
        put_str(v, out);
    }
}

const EMPTY: u32 = u32::MAX;
const DATA: u32 = 0x8000_0000;

/// Serialise an IPv4 database mapping each address to its record.
pub fn build(records: &[(Ipv4Addr, GeoRec)]) -> Vec<u8> {
    // data section
    let mut data: Vec<u8> = vec![];
    let mut offsets = vec![];
    for (_, r) in records {
        offsets.push(data.len() as u32);
        put_map(
            &[
                ("city", &r.city),
                ("region", &r.region),
                ("country", &r.country),
                ("country_name", &r.country_name),
                ("continent_name", &r.continent_name),
                ("latitude", &r.latitude),
                ("longitude", &r.longitude),
                ("radius", &r.radius),
                ("postal_code", &r.postal_code),
            ],
            &mut data,
        );
    }
    // search tree
    let mut nodes: Vec<[u32; 2]> = vec![[EMPTY, EMPTY]];
    for (i, (addr, _)) in records.iter().enumerate() {
        let bits = u32::from(*addr);
        let mut n = 0usize;
        for depth in 0..32 {
            let b = ((bits >> (31 - depth)) & 1) as usize;
            if depth == 31 {
                nodes[n][b] = DATA | offsets[i];
            } else {
                if nodes[n][b] == EMPTY {
                    nodes.push([EMPTY, EMPTY]);
                    nodes[n][b] = (nodes.len() - 1) as u32;
                }
                n = nodes[n][b] as usize;
            }
        }
    }
    let node_count = nodes.len() as u32;
    let mut out: Vec<u8> = vec![];
    for n in &nodes {
        for rec in n {
            let v = if *rec == EMPTY {
                node_count
            } else if rec & DATA != 0 {
                node_count + 16 + (rec & !DATA)
            } else {
                *rec
            };
            assert!(v < (1 << 24), "MACHINERY: mmdb record overflow");
            out.extend_from_slice(&v.to_be_bytes()[1..]);
        }
    }
    out.extend_from_slice(&[0u8; 16]);
    out.extend_from_slice(&data);
    out.extend_from_slice(b"\xab\xcd\xefMaxMind.com");
    // metadata map
    ctrl(7, 9, &mut out);
    put_str("binary_format_major_version", &mut out);
    put_uint(5, 2, &mut out);
    put_str("binary_format_minor_version", &mut out);
    put_uint(5, 0, &mut out);
    put_str("build_epoch", &mut out);
    put_uint(9, 1_700_000_000, &mut out);
    put_str("database_type", &mut out);
    put_str("ipinfo verif fixture", &mut out);
    put_str("description", &mut out);
    put_map(&[("en", "verification fixture")], &mut out);
    put_str("ip_version", &mut out);
    put_uint(5, 4, &mut out);
    put_str("languages", &mut out);
    ctrl(11, 1, &mut out);
    put_str("en", &mut out);
    put_str("node_count", &mut out);
    put_uint(6, u64::from(node_count), &mut out);
    put_str("record_size", &mut out);
    put_uint(5, 24, &mut out);
    out
}
