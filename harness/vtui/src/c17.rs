//! C17 — the terminal UI never crashes, whatever the trace, keys or window size.
//! E3 on the real `TuiApp` + `render` on a `TestBackend`.

use crate::explore::{self, Ev, StepFail};
use crate::tuiworld::{self, TraceEv, World, WorldCfg, TRACE_EVENTS};
use serde_json::{json, Value};
use std::collections::BTreeMap;
use std::time::Instant;
use vcore::mc;
use vcore::report::{Args, Finding, Report, Tier};

type Findings = BTreeMap<String, Finding>;

pub fn full_alphabet(targets: usize) -> Vec<Ev> {
    let mut v: Vec<Ev> = tuiworld::alphabet().into_iter().map(Ev::Key).collect();
    for t in TRACE_EVENTS {
        for i in 0..targets {
            v.push(Ev::Trace(*t, i));
        }
    }
    v
}

pub fn projected(name: &str, targets: usize) -> Vec<Ev> {
    let keys: Vec<&'static str> = match name {
        "navigation" => vec!["next_hop", "previous_hop", "next_trace", "previous_trace", "next_hop_address", "previous_hop_address", "toggle_flows", "toggle_freeze", "toggle_hop_details", "clear_trace_data", "clear_selection"],
        "settings" => vec!["toggle_settings", "toggle_settings_columns", "toggle_settings_theme", "next_trace", "previous_trace", "next_hop", "previous_hop", "toggle_chart", "next_hop_address", "previous_hop_address", "toggle_help"],
        "flows" => vec!["toggle_flows", "next_trace", "previous_trace", "next_hop", "clear_trace_data"],
        "details" => vec!["next_hop", "next_hop_address", "toggle_hop_details", "toggle_freeze", "clear_trace_data"],
        "modes" => vec!["expand_privacy", "contract_privacy", "expand_hosts", "contract_hosts", "expand_hosts_max", "contract_hosts_min", "address_mode_ip", "address_mode_both", "toggle_as_info", "toggle_map", "toggle_chart", "next_hop", "chart_zoom_in", "chart_zoom_out"],
        other => panic!("MACHINERY: projection {other}"),
    };
    let mut v: Vec<Ev> = keys.into_iter().map(Ev::Key).collect();
    let traces: &[TraceEv] = if name == "settings" { &[TraceEv::Path3] } else if name == "flows" { &[TraceEv::Path3, TraceEv::Branch, TraceEv::Path5] } else if name == "details" { &[TraceEv::Path3, TraceEv::Branch] } else { &[TraceEv::Path3, TraceEv::Path2, TraceEv::Branch, TraceEv::Silent, TraceEv::SilentKnown, TraceEv::Error] };
    for t in traces {
        for i in 0..targets {
            v.push(Ev::Trace(*t, i));
        }
    }
    v
}

pub fn hist_json(h: &[Ev]) -> Value {
    json!(h.iter().map(Ev::name).collect::<Vec<_>>())
}

/// The commands that act on the live tracer (not on the frontend's snapshot of it): a trace update
/// landing between such a command and the next snapshot is a different history from one landing
/// after the snapshot.
pub const LIVE_KEYS: &[&str] = &["clear_trace_data", "toggle_freeze"];

/// `al` + for every live-data command in it: that command followed at once by each trace update of `al`.
pub fn with_races(al: &[Ev]) -> Vec<Ev> {
    let mut v = al.to_vec();
    for k in al {
        if let Ev::Key(k) = k {
            if LIVE_KEYS.contains(k) {
                for t in al {
                    if let Ev::Trace(t, i) = t {
                        v.push(Ev::KeyTrace(k, *t, *i));
                    }
                }
            }
        }
    }
    v
}

pub fn hist_from_json(v: &Value, targets: usize) -> Vec<Ev> {
    let all = with_races(&full_alphabet(targets.max(2)));
    v.as_array()
        .expect("history")
        .iter()
        .map(|n| {
            let n = n.as_str().unwrap();
            *all.iter().find(|e| e.name() == n).unwrap_or_else(|| panic!("MACHINERY: unknown event {n}"))
        })
        .collect()
}

pub fn cfg_json(c: &WorldCfg) -> Value {
    json!({"targets": c.targets, "max_flows": c.max_flows, "first_ttl": c.first_ttl, "size": [c.size.0, c.size.1], "extra_args": c.extra_args, "geoip": c.geoip})
}

pub fn cfg_from_json(v: &Value) -> WorldCfg {
    WorldCfg {
        targets: v["targets"].as_u64().unwrap() as usize,
        max_flows: v["max_flows"].as_u64().unwrap() as usize,
        first_ttl: v["first_ttl"].as_u64().unwrap() as u8,
        size: (v["size"][0].as_u64().unwrap() as u16, v["size"][1].as_u64().unwrap() as u16),
        extra_args: v["extra_args"].as_array().unwrap().iter().map(|x| x.as_str().unwrap().to_string()).collect(),
        geoip: v["geoip"].as_bool().unwrap(),
    }
}

fn record(findings: &mut Findings, property: &str, cfg: &WorldCfg, h: &[Ev], f: &StepFail, size: Option<(u16, u16)>) {
    let key = f.key.clone();
    let weight = (h.len(), h.iter().map(|e| e.name().len()).sum::<usize>());
    let fnd = Finding {
        key: key.clone(),
        detail: format!("[{} size={:?}] after {:?}: {} ({})", cfg_json(cfg), size.unwrap_or(cfg.size), h.iter().map(Ev::name).collect::<Vec<_>>(), f.detail, f.phase),
        replay: json!({"check": property, "config": cfg_json(cfg), "history": hist_json(h), "redraw_size": size.map(|s| vec![s.0, s.1])}),
        weight,
        count: 1,
    };
    match findings.get_mut(&key) {
        Some(o) => {
            o.count += 1;
            if fnd.weight < o.weight {
                let c = o.count;
                *o = fnd;
                o.count = c;
            }
        }
        None => {
            findings.insert(key, fnd);
        }
    }
}

pub fn no_check_fn() -> Box<dyn FnMut(&World, &mut Vec<StepFail>)> {
    Box::new(|_: &World, _: &mut Vec<StepFail>| {})
}

/// Re-draw a reached state at other terminal sizes.
pub fn redraw_sizes(cfg: &WorldCfg, hist: &[Ev], sizes: &[(u16, u16)]) -> Vec<((u16, u16), StepFail)> {
    redraw_many(&[(cfg.clone(), hist.to_vec())], sizes).pop().unwrap_or_default()
}

fn redraw_job((cfg, hist, sizes): (WorldCfg, Vec<Ev>, Vec<(u16, u16)>)) -> Vec<((u16, u16), StepFail)> {
    redraw_sizes_here(&cfg, &hist, &sizes)
}

/// Re-draw many reached states at the given sizes on the job pool (a draw that never returns
/// costs one abandoned thread and is reported as a "hang" failure of that state).
pub fn redraw_many(states: &[(WorldCfg, Vec<Ev>)], sizes: &[(u16, u16)]) -> Vec<Vec<((u16, u16), StepFail)>> {
    let jobs: Vec<(WorldCfg, Vec<Ev>, Vec<(u16, u16)>)> = states.iter().map(|(c, h)| (c.clone(), h.clone(), sizes.to_vec())).collect();
    explore::run_jobs(jobs.clone(), redraw_job)
        .into_iter()
        .zip(jobs)
        .map(|(d, job)| match d {
            explore::Done::Ok(v) => v,
            explore::Done::Hung { stage } => {
                let again = matches!(explore::run_jobs(vec![job.clone()], redraw_job).pop(), Some(explore::Done::Hung { .. }));
                // a hang that needs the sizes drawn before it (same state, same size drawn on its own
                // returns) depends on the layout cache / hash-map history of the thread: the signature
                // of the layout-solver cycle (known finding); one that hangs on its own is a plain
                // deterministic hang of the frame
                let size: Option<(u16, u16)> = stage.rsplit(' ').next().and_then(|wh| wh.split_once('x')).and_then(|(w, h)| Some((w.parse().ok()?, h.parse().ok()?)));
                let alone = again && size.is_some_and(|sz| matches!(explore::run_jobs(vec![(job.0.clone(), job.1.clone(), vec![sz])], redraw_job).pop(), Some(explore::Done::Hung { .. })));
                // ... unless it returns when the thread's hash maps are seeded differently: a loop whose
                // termination depends on hash-map iteration order is the layout solver's again
                let mut other_seed_returns = false;
                if alone {
                    if let Some(sz) = size {
                        for seed in [1u8, 3, 5] {
                            vcore::vclock::set_hash_seed_override(Some(seed));
                            let r = explore::run_jobs(vec![(job.0.clone(), job.1.clone(), vec![sz])], redraw_job).pop();
                            vcore::vclock::set_hash_seed_override(None);
                            if matches!(r, Some(explore::Done::Ok(_))) {
                                other_seed_returns = true;
                                break;
                            }
                        }
                    }
                }
                let key = if !again {
                    "never-returns:draw:not-reproducible"
                } else if other_seed_returns {
                    "never-returns:draw-resized:hash-order-dependent"
                } else if alone || size.is_none() {
                    "never-returns:draw-resized"
                } else {
                    "never-returns:draw-resized:only-after-other-sizes"
                };
                vec![((0, 0), StepFail { phase: "hang".into(), key: key.into(), detail: format!("no return within {} s while {stage}{}", explore::JOB_TIMEOUT_S, if !again { "; the same state drew normally when replayed again" } else if other_seed_returns { "; also when that size is drawn on its own - but it returns at once when the thread's hash maps are seeded differently" } else if alone { "; also when that size is drawn on its own, whatever the hash seed" } else { "; the same state at that size alone draws normally - it needs the sizes drawn before it" }) })]
            }
            explore::Done::Crashed(m) => panic!("MACHINERY: a redraw job crashed: {m}"),
        })
        .collect()
}

fn redraw_sizes_here(cfg: &WorldCfg, hist: &[Ev], sizes: &[(u16, u16)]) -> Vec<((u16, u16), StepFail)> {
    let mut out = vec![];
    let mut none = |_: &World, _: &mut Vec<StepFail>| {};
    let (w, f) = explore::replay(cfg, hist, &mut none);
    if !f.is_empty() {
        return out;
    }
    let Some(mut w) = w else { return out };
    for &(cw, ch) in sizes {
        w.resize(cw, ch);
        explore::set_stage(&format!("drawing the frame at {cw}x{ch}"));
        match mc::catch(|| w.draw()) {
            Ok(()) => {}
            Err(p) => {
                out.push(((cw, ch), StepFail { phase: "draw".into(), key: format!("{}@draw-resized", p.key()), detail: format!("{} at {}:{} ({}x{})", p.message, p.file, p.line, cw, ch) }));
                // the terminal may be left mid-frame: rebuild
                let (w2, _) = explore::replay(cfg, hist, &mut none);
                match w2 {
                    Some(x) => w = x,
                    None => break,
                }
            }
        }
    }
    out
}

pub fn run(args: &Args) -> i32 {
    if let Some(path) = &args.replay {
        return replay(path, "C17");
    }
    let tier = args.tier;
    let mut rep = Report::new("C17", tier, "model_checking");
    let start = Instant::now();
    let budget_s = if tier == Tier::Thorough { 60.0 * 60.0 } else { 240.0 };
    let mut findings = Findings::new();
    let (mut states, mut transitions, mut max_depth) = (0u64, 0u64, 0usize);
    let mut phases: Vec<Value> = vec![];
    let no_check: explore::MakeCheck = no_check_fn;
    let base = WorldCfg::default();
    let configs: Vec<(&str, WorldCfg)> = vec![
        ("single-target", base.clone()),
        ("two-targets", WorldCfg { targets: 2, ..base.clone() }),
        ("first-ttl-3-one-flow", WorldCfg { first_ttl: 3, max_flows: 1, ..base.clone() }),
        ("all-columns", WorldCfg { extra_args: vec!["--tui-custom-columns".into(), "holsravbwdtjgxiSPQTCNfFBDKM".into()], ..base.clone() }),
        ("one-column", WorldCfg { extra_args: vec!["--tui-custom-columns".into(), "h".into()], ..base.clone() }),
        ("tiny-terminal", WorldCfg { size: (1, 1), ..base.clone() }),
        // the settings dialog's table has no inner area: nothing the widgets would repair while
        // drawing (a selection beyond the last row, say) is repaired here
        ("short-terminal", WorldCfg { size: (80, 15), ..base.clone() }),
    ];
    let mut reached_for_sizes: Vec<(WorldCfg, Vec<Ev>)> = vec![];
    // (i) full alphabet, level by level
    let full_depth = if tier == Tier::Thorough { 4 } else { 3 };
    for (name, cfg) in &configs {
        let d = if *name == "single-target" { full_depth } else if *name == "two-targets" { full_depth - 1 } else { full_depth - 1 - usize::from(tier == Tier::Quick) };
        let al = full_alphabet(cfg.targets);
        explore::set_phase_slice((tier == Tier::Thorough).then_some(180));
        let r = explore::bfs(cfg, &al, &[], d, usize::MAX, no_check);
        states += r.states;
        transitions += r.transitions;
        max_depth = max_depth.max(r.max_depth);
        for (h, f) in &r.fails {
            record(&mut findings, "C17", cfg, h, f, None);
        }
        eprintln!("C17 progress: full-alphabet/{name} done at {:.1}s ({} states)", start.elapsed().as_secs_f64(), r.states);
        phases.push(json!({"phase": "full-alphabet", "config": name, "alphabet": al.len(), "depth": d, "states": r.states, "transitions": r.transitions, "failures": r.fails.len()}));
        for h in r.reached.iter().step_by(if tier == Tier::Thorough { 1 } else { 7 }) {
            reached_for_sizes.push((cfg.clone(), h.clone()));
        }
        if start.elapsed().as_secs_f64() > budget_s {
            rep.cap_hit = Some(format!("wall budget {budget_s}s hit during full-alphabet phase ({name})"));
            break;
        }
    }
    // (ii) fixpoint search on projected alphabets
    for proj in ["navigation", "settings", "modes"] {
        for (name, cfg) in configs.iter().take(if tier == Tier::Thorough { 3 } else { 1 }) {
            if start.elapsed().as_secs_f64() > budget_s {
                rep.cap_hit.get_or_insert(format!("wall budget {budget_s}s hit before projection {proj}/{name}"));
                continue;
            }
            let al = projected(proj, cfg.targets);
            let depth = if tier == Tier::Thorough { 9 } else if proj == "modes" { 4 } else if proj == "navigation" { 5 } else { 6 };
            let cap = if tier == Tier::Thorough { 60_000 } else { 2_500 };
            explore::set_phase_slice((tier == Tier::Thorough).then_some(180));
            let r = explore::bfs(cfg, &al, &[], depth, cap, no_check);
            states += r.states;
            transitions += r.transitions;
            max_depth = max_depth.max(r.max_depth);
            for (h, f) in &r.fails {
                record(&mut findings, "C17", cfg, h, f, None);
            }
            eprintln!("C17 progress: projected:{proj}/{name} done at {:.1}s ({} states)", start.elapsed().as_secs_f64(), r.states);
            phases.push(json!({"phase": format!("projected:{proj}"), "config": name, "alphabet": al.len(), "depth_bound": depth, "states": r.states, "transitions": r.transitions, "fixpoint_reached": r.fixpoint, "failures": r.fails.len()}));
            for h in r.reached.iter().step_by(if tier == Tier::Thorough { 5 } else { 40 }) {
                reached_for_sizes.push((cfg.clone(), h.clone()));
            }
        }
    }
    // (ii-a) flows: three distinct paths against flow caps of 1, 2 and 3
    for (name, cfg) in [("flow-cap-3", base.clone()), ("flow-cap-2", WorldCfg { max_flows: 2, ..base.clone() }), ("flow-cap-1", WorldCfg { max_flows: 1, ..base.clone() })] {
        let al = with_races(&projected("flows", cfg.targets));
        let depth = if tier == Tier::Thorough { 10 } else { 8 };
        explore::set_phase_slice((tier == Tier::Thorough).then_some(180));
        let r = explore::bfs(&cfg, &al, &[], depth, if tier == Tier::Thorough { 100_000 } else { 6_000 }, no_check);
        states += r.states;
        transitions += r.transitions;
        max_depth = max_depth.max(r.max_depth);
        for (h, f) in &r.fails {
            record(&mut findings, "C17", &cfg, h, f, None);
        }
        eprintln!("C17 progress: flows/{name} done at {:.1}s ({} states, depth {})", start.elapsed().as_secs_f64(), r.states, r.max_depth);
        phases.push(json!({"phase": "projected:flows", "config": name, "alphabet": al.len(), "depth_bound": depth, "states": r.states, "transitions": r.transitions, "fixpoint_reached": r.fixpoint, "max_depth": r.max_depth, "failures": r.fails.len()}));
    }
    // (ii-a2) hop details x freeze x clear: a small alphabet searched deep (towards its fixpoint):
    // what is selected in a frozen picture must still exist when the display thaws
    {
        let al = with_races(&projected("details", base.targets));
        let depth = if tier == Tier::Thorough { 16 } else { 12 };
        explore::set_phase_slice((tier == Tier::Thorough).then_some(180));
        let r = explore::bfs(&base, &al, &[], depth, if tier == Tier::Thorough { 200_000 } else { 20_000 }, no_check);
        states += r.states;
        transitions += r.transitions;
        max_depth = max_depth.max(r.max_depth);
        for (h, f) in &r.fails {
            record(&mut findings, "C17", &base, h, f, None);
        }
        eprintln!("C17 progress: details done at {:.1}s ({} states, depth {}, fixpoint {})", start.elapsed().as_secs_f64(), r.states, r.max_depth, r.fixpoint);
        phases.push(json!({"phase": "projected:details", "config": "single-target", "alphabet": al.len(), "depth_bound": depth, "states": r.states, "transitions": r.transitions, "fixpoint_reached": r.fixpoint, "max_depth": r.max_depth, "failures": r.fails.len()}));
    }
    // (ii-a3) further small alphabets searched towards their fixpoints: a feature x freeze x clear
    {
        use TraceEv::{Branch, Path3, Path5, SilentKnown};
        let two = WorldCfg { targets: 2, ..base.clone() };
        let small: Vec<(&str, &WorldCfg, Vec<&'static str>, Vec<(TraceEv, usize)>)> = vec![
            ("flows-freeze", &base, vec!["toggle_flows", "next_trace", "previous_trace", "next_hop", "toggle_freeze", "clear_trace_data"], vec![(Path3, 0), (Branch, 0), (Path5, 0)]),
            ("chart-map-freeze", &base, vec!["toggle_chart", "toggle_map", "next_hop", "previous_hop", "clear_selection", "toggle_freeze", "clear_trace_data"], vec![(Path3, 0), (SilentKnown, 0), (Path5, 0)]),
            ("hosts-freeze", &base, vec!["expand_hosts", "contract_hosts", "expand_hosts_max", "contract_hosts_min", "next_hop", "toggle_freeze", "clear_trace_data"], vec![(Path3, 0), (Branch, 0), (SilentKnown, 0)]),
            ("privacy-flows-freeze", &base, vec!["expand_privacy", "contract_privacy", "toggle_flows", "next_trace", "toggle_freeze", "clear_trace_data"], vec![(Path3, 0), (Branch, 0), (Path5, 0)]),
            ("two-targets-freeze", &two, vec!["next_trace", "previous_trace", "next_hop", "toggle_hop_details", "toggle_freeze", "clear_trace_data"], vec![(Path3, 0), (Path5, 1), (Branch, 1)]),
        ];
        for (name, cfg, keys, traces) in small {
            if start.elapsed().as_secs_f64() > budget_s {
                rep.cap_hit.get_or_insert(format!("wall budget {budget_s}s hit before projection {name}"));
                continue;
            }
            let mut al: Vec<Ev> = keys.into_iter().map(Ev::Key).collect();
            al.extend(traces.into_iter().map(|(t, i)| Ev::Trace(t, i)));
            let al = with_races(&al);
            let depth = if tier == Tier::Thorough { 16 } else { 10 };
            explore::set_phase_slice((tier == Tier::Thorough).then_some(180));
            let r = explore::bfs(cfg, &al, &[], depth, if tier == Tier::Thorough { 150_000 } else { 1_200 }, no_check);
            states += r.states;
            transitions += r.transitions;
            max_depth = max_depth.max(r.max_depth);
            for (h, f) in &r.fails {
                record(&mut findings, "C17", cfg, h, f, None);
            }
            eprintln!("C17 progress: {name} done at {:.1}s ({} states, depth {}, fixpoint {})", start.elapsed().as_secs_f64(), r.states, r.max_depth, r.fixpoint);
            phases.push(json!({"phase": format!("projected:{name}"), "alphabet": al.len(), "depth_bound": depth, "states": r.states, "transitions": r.transitions, "fixpoint_reached": r.fixpoint, "max_depth": r.max_depth, "failures": r.fails.len()}));
        }
    }
    // (ii-b) the settings dialog in depth: first the navigation fixpoint (every tab, every row),
    // then from EVERY navigation state all sequences of <= k events of the dialog's whole alphabet
    // (column toggle / move up / move down, navigation, leaving and re-entering the dialog) - so
    // every action is tried on every row of every tab, the last row included
    {
        let nav: Vec<Ev> = ["next_hop", "previous_hop", "next_trace", "previous_trace"].iter().map(|k| Ev::Key(k)).collect();
        let keys = ["next_hop", "previous_hop", "next_trace", "previous_trace", "toggle_chart", "next_hop_address", "previous_hop_address", "toggle_settings", "toggle_settings_columns"];
        let al: Vec<Ev> = keys.iter().map(|k| Ev::Key(k)).collect();
        // terminal size is a dimension of the search, not only of the final re-draw: at 80x15 and
        // 1x1 the dialog is (partly) not drawn, so the state is never touched by a widget
        let deep: Vec<&(&str, WorldCfg)> = if tier == Tier::Thorough { vec![&configs[0], &configs[3], &configs[4], &configs[6], &configs[5]] } else { vec![&configs[0], &configs[3], &configs[6], &configs[5]] };
        for (ci, (name, cfg)) in deep.into_iter().enumerate() {
            let k = match (tier, ci) {
                (Tier::Thorough, _) => 3,
                (Tier::Quick, 0) => 2,
                (Tier::Quick, _) => 1,
            };
            let t0 = Instant::now();
            let root = vec![Ev::Trace(TraceEv::Path3, 0), Ev::Key("toggle_settings")];
            explore::set_phase_slice((tier == Tier::Thorough).then_some(180));
            let fix = explore::bfs(cfg, &nav, &root, 120, usize::MAX, no_check);
            explore::set_phase_slice((tier == Tier::Thorough).then_some(180));
            let r = explore::bfs_roots(cfg, &al, &fix.reached, k, usize::MAX, &|_| 0, usize::MAX, no_check);
            states += r.states;
            transitions += fix.transitions + r.transitions;
            max_depth = max_depth.max(fix.max_depth + r.max_depth);
            for (h, f) in fix.fails.iter().chain(&r.fails) {
                record(&mut findings, "C17", cfg, h, f, None);
            }
            eprintln!("C17 progress: settings-deep/{name} took {:.1}s ({} + {} states)", t0.elapsed().as_secs_f64(), fix.states, r.states);
            phases.push(json!({"phase": "settings-deep", "config": name, "navigation_states": fix.states, "navigation_fixpoint": fix.fixpoint, "navigation_depth": fix.max_depth, "alphabet": al.len(), "events_from_every_navigation_state": k, "states": r.states, "transitions": r.transitions, "failures": fix.fails.len() + r.fails.len()}));
        }
    }
    // (iii) terminal sizes on the reached state set
    let mut sizes: Vec<(u16, u16)> = vec![(1, 1), (2, 2), (10, 5), (40, 10), (80, 24), (120, 40), (300, 100)];
    if tier == Tier::Thorough {
        for w in (1..=300u16).step_by(1) {
            sizes.push((w, 1));
            sizes.push((w, 24));
        }
        for h in 1..=100u16 {
            sizes.push((1, h));
            sizes.push((80, h));
        }
    } else {
        for w in [3u16, 5, 8, 13, 20, 21, 30, 50, 79, 81, 100, 200, 299] {
            sizes.push((w, 24));
            sizes.push((w, 1));
        }
        for h in [2u16, 3, 4, 6, 7, 9, 11, 12, 15, 16, 17, 20, 30, 60, 99] {
            sizes.push((80, h));
            sizes.push((1, h));
        }
    }
    let n_states = reached_for_sizes.len();
    // thorough: at most 4000 states x ~800 sizes (every state would be tens of millions of frames)
    let stride = if tier == Tier::Quick { (n_states / 24).max(1) } else { (n_states / 4000).max(1) };
    let picked: Vec<usize> = (0..n_states).step_by(stride).collect();
    let picked_states: Vec<(WorldCfg, Vec<Ev>)> = if start.elapsed().as_secs_f64() > budget_s * 1.5 { vec![] } else { picked.iter().map(|i| reached_for_sizes[*i].clone()).collect() };
    let redraws = (picked_states.len() * sizes.len()) as u64;
    for (k, fails) in redraw_many(&picked_states, &sizes).into_iter().enumerate() {
        let (cfg, h) = &picked_states[k];
        for (s, f) in fails {
            record(&mut findings, "C17", cfg, h, &f, Some(s));
        }
    }
    tuiworld::remove_fixture();
    rep.merge_findings(findings);
    rep.set("states", json!(states));
    rep.set("transitions", json!(transitions + redraws));
    rep.set("traces_validated_against_impl", json!(transitions));
    rep.set("evaluations", json!(transitions + redraws));
    rep.set("distinct_nontrivial", json!(states));
    rep.set("max_depth", json!(max_depth));
    rep.set("redraws_at_other_sizes", json!(redraws));
    rep.set("terminal_sizes", json!(sizes.len()));
    rep.set("phases", json!(phases));
    rep.set("searches_cut_short_by_their_time_slice", json!(explore::phases_cut()));
    if explore::phases_cut() > 0 {
        rep.cap_hit.get_or_insert(format!("{} search phase(s) ended at their 3-minute time slice (thorough tier); what each covered is in `phases`", explore::phases_cut()));
    }
    rep.set("rule", json!("state = history of events replayed on a fresh real TuiApp (+ real un-started Tracers fed by verif_apply_round) drawn with the real render on a TestBackend; events = every binding of run_app's dispatch chain under the same mode gating (46 commands; table checked against the source at start-up) + 8 trace updates per target (3-hop path, shorter path, other ECMP branch, nothing answers, nothing answers with the target distance carried over from an earlier round, failed probes, 5-hop path with unknown hop, fatal error); each step does what one turn of run_app does (snapshot/clamp/order unless frozen, draw). Level-synchronous BFS de-duplicated on a canonical key (UI fields verbatim, trace state by shape); full alphabet to the depth bound per configuration, projected alphabets towards a fixpoint (navigation, settings, modes; details x freeze x clear to depth 12 / 16, and five more feature x freeze x clear alphabets (flows, chart/map, hosts, privacy x flows, two targets) to depth 10 / 16; flows: three distinct paths against flow caps 1, 2, 3); settings dialog: navigation fixpoint (every tab, every row), then every sequence of <= 2 (quick; 1 on the column-set variants; 3 thorough) dialog events from every navigation state; every picked reached state (quick: 24, thorough: up to 4000, evenly spaced) re-drawn at the listed terminal sizes. Oracle: no panic in any command, loop-top or draw; selected hop/address/flow/trace/settings tab refer to existing entries before every draw"));
    rep.sample(json!({"config": "single-target", "history": ["trace0:Branch", "key:toggle_flows", "key:clear_trace_data"]}));
    rep.assumptions = vec!["command table replicates run_app's dispatch (self-checked against the source text)".into(), "clock pinned; DNS cache pre-seeded (flush re-seeds at once); GeoIP from a generated fixture".into(), "counters/latencies are not part of the canonical key (DESIGN.md 3/C17)".into()];
    rep.finish()
}

pub fn replay(path: &str, prop: &str) -> i32 {
    let s = std::fs::read_to_string(path).expect("MACHINERY: cannot read replay file");
    let v: Value = serde_json::from_str(&s).expect("MACHINERY: replay JSON");
    let r = if v.get("replay").is_some() { &v["replay"] } else { &v };
    let cfg = cfg_from_json(&r["config"]);
    let hist = hist_from_json(&r["history"], cfg.targets);
    println!("replay {prop}: config={} history={:?}", cfg_json(&cfg), hist.iter().map(Ev::name).collect::<Vec<_>>());
    let mut chk: Box<dyn FnMut(&World, &mut Vec<StepFail>)> = if prop == "C18" { crate::c18::make_check() } else { Box::new(|_: &World, _: &mut Vec<StepFail>| {}) };
    let (w, mut fails) = explore::replay(&cfg, &hist, &mut *chk);
    if let (Some(w), Some(sz)) = (&w, r["redraw_size"].as_array()) {
        let _ = w;
        let size = (sz[0].as_u64().unwrap() as u16, sz[1].as_u64().unwrap() as u16);
        for (s, f) in redraw_sizes(&cfg, &hist, &[size]) {
            println!("redraw at {s:?}");
            fails.push(f);
        }
    }
    if let Some(w) = &w {
        for l in w.screen() {
            println!("{l}");
        }
    }
    for f in &fails {
        println!("DISCREPANCY {} [{}]: {}", f.key, f.phase, f.detail);
    }
    tuiworld::remove_fixture();
    if fails.is_empty() {
        println!("replay: property held");
        0
    } else {
        println!("VIOLATION property={prop} replay={path}");
        1
    }
}
