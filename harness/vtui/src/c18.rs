//! C18 — hop privacy: hidden hops never reach the screen.
//! Same engine and state space as C17; the oracle searches every drawn frame for the secrets
//! (address, hostname, AS and GeoIP text) of every responding hop with TTL <= n and for the
//! source address; plus the positive half and the keyboard half.

use crate::c17::{self, cfg_json, hist_json};
use crate::explore::{self, Ev, StepFail};
use crate::tuiworld::{self, TraceEv, World, WorldCfg, SRC_HOST};
use serde_json::json;
use std::collections::BTreeMap;
use std::net::IpAddr;
use std::time::Instant;
use trippy_core::FlowId;
use vcore::mc;
use vcore::report::{Args, Finding, Report, Tier};

type Findings = BTreeMap<String, Finding>;

/// (selector, ttl) of one of our hop addresses 10.(70+ttl).ttl.(1+sel)
fn decode(addr: IpAddr) -> Option<(u8, u8)> {
    match addr {
        IpAddr::V4(a) => {
            let o = a.octets();
            (o[0] == 10 && o[1] >= 71 && o[1] <= 76 && o[2] == o[1] - 70 && o[3] >= 1).then(|| (o[3] - 1, o[2]))
        }
        IpAddr::V6(_) => None,
    }
}

pub fn privacy_oracle(w: &World, fails: &mut Vec<StepFail>) {
    let a = &w.app;
    let Some(n) = a.tui_config.privacy_max_ttl else { return };
    let screen = w.screen();
    let st = &a.selected_tracer_data;
    let mut needles: Vec<(String, String)> = vec![];
    let mut ids: Vec<u64> = vec![0];
    ids.extend(st.flows().iter().map(|(_, id)| id.0));
    // text a hidden hop shares with a hop that may be shown (two hops at one GeoIP location) is
    // not a leak where it describes the visible hop ...
    let mut visible: std::collections::HashSet<String> = std::collections::HashSet::new();
    for id in &ids {
        for hop in st.hops_for_flow(FlowId(*id)) {
            if hop.ttl() > n {
                for addr in hop.addrs() {
                    if let Some((sel, ttl)) = decode(*addr) {
                        visible.extend(tuiworld::secrets(sel, ttl).into_iter().map(|s| s.chars().take(6).collect::<String>()));
                    }
                }
            }
        }
    }
    // ... but the map view prints location text in one place only, the info panel, and that panel
    // describes the selected hop (or the target): if THAT hop is hidden nothing of it may show
    let map_panel_of: Option<u8> = (a.show_map && !a.show_help && !a.show_settings).then(|| mc::catch(|| a.selected_hop_or_target().ttl()).unwrap_or(0)).filter(|t| *t != 0 && *t <= n);
    for id in ids {
        for hop in st.hops_for_flow(FlowId(id)) {
            if hop.ttl() == 0 || hop.ttl() > n {
                continue;
            }
            for addr in hop.addrs() {
                if let Some((sel, ttl)) = decode(*addr) {
                    for s in tuiworld::secrets(sel, ttl) {
                        let needle: String = s.chars().take(6).collect();
                        if visible.contains(&needle) && map_panel_of != Some(hop.ttl()) {
                            continue;
                        }
                        needles.push((needle, format!("hop ttl {ttl} ({addr}) secret '{s}'")));
                    }
                }
            }
        }
    }
    // the source address is hidden whenever privacy is in force
    needles.push(("10.0.0.".into(), "source address 10.0.0.1".into()));
    needles.push((SRC_HOST.chars().take(6).collect(), format!("source hostname {SRC_HOST}")));
    needles.sort();
    needles.dedup();
    for (needle, what) in needles {
        for (y, row) in screen.iter().enumerate() {
            if row.contains(&needle) {
                let view = if a.show_settings { "settings" } else if a.show_help { "help" } else if a.show_map { "map" } else if a.show_chart { "chart" } else if a.show_hop_details { "hop-details" } else { "table" };
                fails.push(StepFail { phase: "oracle".into(), key: format!("privacy-leak:{view}:{}", what.split(' ').next().unwrap_or("")), detail: format!("privacy ttl {n}: {what} visible in row {y}: '{}'", row.trim_end()) });
                break;
            }
        }
    }
}

pub fn make_check() -> Box<dyn FnMut(&World, &mut Vec<StepFail>)> {
    Box::new(|w: &World, f: &mut Vec<StepFail>| privacy_oracle(w, f))
}

fn alphabet() -> Vec<Ev> {
    let mut v: Vec<Ev> = ["expand_privacy", "contract_privacy", "toggle_hop_details", "next_hop", "previous_hop", "next_hop_address", "toggle_map", "toggle_chart", "toggle_flows", "next_trace", "address_mode_ip", "address_mode_host", "address_mode_both", "toggle_as_info", "expand_hosts_max", "contract_hosts_min", "toggle_settings", "toggle_help", "toggle_freeze"]
        .into_iter()
        .map(Ev::Key)
        .collect();
    for t in [TraceEv::Path3, TraceEv::Branch, TraceEv::Path5, TraceEv::Failed] {
        v.push(Ev::Trace(t, 0));
    }
    v
}

fn small_alphabet() -> Vec<Ev> {
    ["expand_privacy", "contract_privacy", "toggle_hop_details", "next_hop", "next_hop_address", "toggle_map", "toggle_flows", "address_mode_both", "address_mode_host", "expand_hosts_max"].into_iter().map(Ev::Key).collect()
}

fn record(findings: &mut Findings, cfg: &WorldCfg, h: &[Ev], f: &StepFail, size: Option<(u16, u16)>) {
    if f.phase == "hang" {
        // a command or a draw that never returns is C17's topic and is reported there
        return;
    }
    let key = f.key.clone();
    let weight = (h.len(), h.iter().map(|e| e.name().len()).sum::<usize>());
    let fnd = Finding {
        key: key.clone(),
        detail: format!("[{} size={:?}] after {:?}: {}", cfg_json(cfg), size.unwrap_or(cfg.size), h.iter().map(Ev::name).collect::<Vec<_>>(), f.detail),
        replay: json!({"check": "C18", "config": cfg_json(cfg), "history": hist_json(h), "redraw_size": size.map(|s| vec![s.0, s.1])}),
        weight,
        count: 1,
    };
    match findings.get_mut(&key) {
        Some(o) => {
            o.count += 1;
            if fnd.weight < o.weight {
                let c = o.count;
                *o = fnd;
                o.count = c;
            }
        }
        None => {
            findings.insert(key, fnd);
        }
    }
}

/// Re-draw one reached state at the given sizes with the privacy oracle on every frame.
fn privacy_redraw_job((cfg, h, sizes): (WorldCfg, Vec<Ev>, Vec<(u16, u16)>)) -> (u64, Vec<((u16, u16), StepFail)>) {
    let mut out = vec![];
    let mut n = 0;
    let mut none = |_: &World, _: &mut Vec<StepFail>| {};
    let (w, f) = explore::replay(&cfg, &h, &mut none);
    if !f.is_empty() {
        return (0, out);
    }
    let Some(mut w) = w else { return (0, out) };
    for &(cw, ch) in &sizes {
        w.resize(cw, ch);
        explore::set_stage(&format!("drawing the frame at {cw}x{ch}"));
        if mc::catch(|| w.draw()).is_err() {
            break; // crashes are C17's topic
        }
        n += 1;
        let mut fl = vec![];
        privacy_oracle(&w, &mut fl);
        for x in fl {
            out.push(((cw, ch), x));
        }
    }
    (n, out)
}

pub fn run(args: &Args) -> i32 {
    if let Some(path) = &args.replay {
        return c17::replay(path, "C18");
    }
    let tier = args.tier;
    let mut rep = Report::new("C18", tier, "model_checking");
    let start = Instant::now();
    let budget_s = if tier == Tier::Thorough { 60.0 * 60.0 } else { 240.0 };
    let mut findings = Findings::new();
    let (mut states, mut transitions, mut max_depth) = (0u64, 0u64, 0usize);
    let mut phases = vec![];
    let mk: explore::MakeCheck = make_check;
    let wide = WorldCfg { size: (130, 40), ..WorldCfg::default() };
    let mut reached: Vec<(WorldCfg, Vec<Ev>)> = vec![];
    // (1) default display modes, full privacy alphabet
    {
        let depth = if tier == Tier::Thorough { 6 } else { 4 };
        explore::set_phase_slice((tier == Tier::Thorough).then_some(180));
        let r = explore::bfs(&wide, &alphabet(), &[], depth, if tier == Tier::Thorough { 80_000 } else { 6_000 }, mk);
        states += r.states;
        transitions += r.transitions;
        max_depth = max_depth.max(r.max_depth);
        for (h, f) in &r.fails {
            record(&mut findings, &wide, h, f, None);
        }
        phases.push(json!({"phase": "default-modes", "alphabet": alphabet().len(), "depth_bound": depth, "states": r.states, "transitions": r.transitions, "fixpoint_reached": r.fixpoint, "failures": r.fails.len()}));
        for h in r.reached.iter().step_by(if tier == Tier::Thorough { 3 } else { 25 }) {
            reached.push((wide.clone(), h.clone()));
        }
    }
    // (1b) small alphabets searched towards their fixpoints (privacy x one feature x data changes)
    {
        use TraceEv::{Branch, Path3, Path5};
        let rich = WorldCfg { size: (130, 40), extra_args: vec!["--tui-address-mode".into(), "both".into(), "--tui-as-mode".into(), "name".into(), "--tui-geoip-mode".into(), "long".into()], ..WorldCfg::default() };
        let small: Vec<(&str, Vec<&'static str>, Vec<TraceEv>)> = vec![
            ("privacy-details", vec!["expand_privacy", "contract_privacy", "next_hop", "previous_hop", "toggle_hop_details", "next_hop_address"], vec![Path3, Branch]),
            ("privacy-map-chart", vec!["expand_privacy", "contract_privacy", "next_hop", "toggle_map", "toggle_chart", "clear_selection"], vec![Path3, Path5]),
            ("privacy-flows-freeze", vec!["expand_privacy", "contract_privacy", "toggle_flows", "next_trace", "previous_trace", "toggle_freeze", "clear_trace_data"], vec![Path3, Branch, Path5]),
        ];
        for (name, keys, traces) in small {
            let mut al: Vec<Ev> = keys.into_iter().map(Ev::Key).collect();
            al.extend(traces.into_iter().map(|t| Ev::Trace(t, 0)));
            let al = crate::c17::with_races(&al);
            let depth = if tier == Tier::Thorough { 16 } else { 10 };
            explore::set_phase_slice((tier == Tier::Thorough).then_some(180));
            let r = explore::bfs(&rich, &al, &[], depth, if tier == Tier::Thorough { 100_000 } else { 3_000 }, mk);
            states += r.states;
            transitions += r.transitions;
            max_depth = max_depth.max(r.max_depth);
            for (h, f) in &r.fails {
                record(&mut findings, &rich, h, f, None);
            }
            phases.push(json!({"phase": format!("small:{name}"), "alphabet": al.len(), "depth_bound": depth, "states": r.states, "transitions": r.transitions, "max_depth": r.max_depth, "fixpoint_reached": r.fixpoint, "failures": r.fails.len()}));
        }
    }
    // (2) every AS mode x GeoIP mode x address mode, from a populated trace with privacy in force
    let root = vec![Ev::Trace(TraceEv::Path3, 0), Ev::Trace(TraceEv::Branch, 0), Ev::Trace(TraceEv::Path5, 0)];
    let mut n_cfg = 0;
    for asm in ["asn", "prefix", "country-code", "registry", "allocated", "name"] {
        for geo in ["off", "short", "long", "location"] {
            for (k, addr_mode) in ["ip", "host", "both"].iter().enumerate() {
                // rotate the initial privacy value so every n in {0..=6} meets every mode pair
                let n = (n_cfg + k) % 7;
                n_cfg += 1;
                if tier == Tier::Quick && (n_cfg % 3 != 0) {
                    continue;
                }
                if start.elapsed().as_secs_f64() > budget_s {
                    rep.cap_hit.get_or_insert(format!("wall budget {budget_s}s hit in the display-mode sweep"));
                    continue;
                }
                let cfg = WorldCfg {
                    size: (130, 40),
                    extra_args: vec!["--tui-as-mode".into(), asm.into(), "--tui-geoip-mode".into(), geo.into(), "--tui-address-mode".into(), (*addr_mode).into(), "--tui-privacy-max-ttl".into(), n.to_string()],
                    ..WorldCfg::default()
                };
                let depth = if tier == Tier::Thorough { 4 } else { 3 };
                explore::set_phase_slice((tier == Tier::Thorough).then_some(180));
                let r = explore::bfs(&cfg, &small_alphabet(), &root, depth, 20_000, mk);
                states += r.states;
                transitions += r.transitions;
                for (h, f) in &r.fails {
                    record(&mut findings, &cfg, h, f, None);
                }
                for h in r.reached.iter().step_by(if tier == Tier::Thorough { 10 } else { 60 }) {
                    reached.push((cfg.clone(), h.clone()));
                }
            }
        }
    }
    phases.push(json!({"phase": "display-mode-sweep", "configs": n_cfg, "alphabet": small_alphabet().len(), "root": hist_json(&root)}));
    // (3) positive half, canonical conditions: hops above n show their address
    let mut positive = 0u64;
    for n in 0..=3u8 {
        let cfg = WorldCfg { size: (140, 40), extra_args: vec!["--tui-address-mode".into(), "both".into(), "--tui-privacy-max-ttl".into(), n.to_string()], ..WorldCfg::default() };
        let (screen, f) = {
            let mut chk = make_check();
            let (w, f) = explore::replay(&cfg, &[Ev::Trace(TraceEv::Path3, 0)], &mut *chk);
            (w.map(|w| w.screen().join("\n")), f)
        };
        for x in &f {
            record(&mut findings, &cfg, &[Ev::Trace(TraceEv::Path3, 0)], x, None);
        }
        if let Some(screen) = screen {
            for ttl in 1..=3u8 {
                positive += 1;
                let ip = format!("10.{}.{}.1", 70 + ttl, ttl);
                let shown = screen.contains(&ip);
                if (ttl > n) != shown {
                    let f = StepFail { phase: "oracle".into(), key: format!("privacy-positive:{}", if shown { "hidden-hop-shown" } else { "visible-hop-hidden" }), detail: format!("privacy ttl {n}: hop {ttl} address {ip} shown={shown}") };
                    record(&mut findings, &cfg, &[Ev::Trace(TraceEv::Path3, 0)], &f, None);
                }
            }
        }
    }
    // (4) reached states re-drawn at other terminal sizes, oracle on every frame
    let mut sizes: Vec<(u16, u16)> = vec![(40, 10), (80, 24), (120, 40), (300, 100), (60, 15), (100, 30)];
    if tier == Tier::Thorough {
        for w in (20..=300u16).step_by(7) {
            sizes.push((w, 30));
        }
        for h in (8..=100u16).step_by(4) {
            sizes.push((120, h));
        }
    } else {
        sizes.extend([(50, 24), (66, 24), (90, 24), (200, 24), (120, 12), (120, 18), (120, 60)]);
    }
    let stride = if tier == Tier::Quick { (reached.len() / 80).max(1) } else { 1 };
    let picked: Vec<usize> = (0..reached.len()).step_by(stride).collect();
    let picked_states: Vec<(WorldCfg, Vec<Ev>, Vec<(u16, u16)>)> = if start.elapsed().as_secs_f64() > budget_s * 1.5 { vec![] } else { picked.iter().map(|i| (reached[*i].0.clone(), reached[*i].1.clone(), sizes.clone())).collect() };
    let mut redraws = 0u64;
    for (k, d) in explore::run_jobs(picked_states.clone(), privacy_redraw_job).into_iter().enumerate() {
        let (cfg, h, _) = &picked_states[k];
        match d {
            explore::Done::Ok((n, fails)) => {
                redraws += n;
                for (s, f) in fails {
                    record(&mut findings, cfg, h, &f, Some(s));
                }
            }
            // a draw that never returns is C17's topic (reported there); here it only ends the job
            explore::Done::Hung { .. } => {}
            explore::Done::Crashed(m) => panic!("MACHINERY: a redraw job crashed: {m}"),
        }
    }
    tuiworld::remove_fixture();
    rep.merge_findings(findings);
    rep.set("states", json!(states));
    rep.set("transitions", json!(transitions + redraws));
    rep.set("traces_validated_against_impl", json!(transitions));
    rep.set("evaluations", json!(transitions + redraws + positive));
    rep.set("distinct_nontrivial", json!(states));
    rep.set("max_depth", json!(max_depth));
    rep.set("frames_redrawn_at_other_sizes", json!(redraws));
    rep.set("positive_half_checks", json!(positive));
    rep.set("phases", json!(phases));
    rep.set("searches_cut_short_by_their_time_slice", json!(explore::phases_cut()));
    if explore::phases_cut() > 0 {
        rep.cap_hit.get_or_insert(format!("{} search phase(s) ended at their 3-minute time slice (thorough tier); what each covered is in `phases`", explore::phases_cut()));
    }
    rep.set("rule", json!("same engine as C17 (real TuiApp/render/Tracer, replayed histories, BFS de-duplicated on the canonical key). Every hop address has a recognisable address, hostname, AS number/name/prefix/registry and GeoIP city/region/country/continent/coordinates/postal code (seeded DNS cache, generated MaxMind fixture; hops 3 and 4 share one GeoIP location - text shared with a hop that may be shown is not counted, except in the map view when the info panel describes a hidden hop). After EVERY draw every row of the TestBackend buffer is searched for the 6-character prefix of every secret of every responding hop with TTL <= n (all flows) and for the source address/hostname. (1) 23-event alphabet (privacy, details, selection, map/chart/flows, address modes, AS toggle, hosts, settings/help, freeze, 4 trace updates) to the depth bound; (1b) three small alphabets (privacy x details, privacy x map/chart, privacy x flows x freeze x clear) searched to depth 10 / 16 towards their fixpoints; (2) 6 AS modes x 4 GeoIP modes x 3 address modes with rotating initial n from a populated multi-flow trace; (3) positive half at 140 columns: hops above n show their address; (4) reached states re-drawn at other sizes with the oracle on each frame. Keyboard half: every expand/contract_privacy step in the search is compared with off -> 0 -> .. -> hop count"));
    rep.sample(json!({"config": "as-mode name, geoip long, address both, privacy 2", "history": ["trace0:Path3", "trace0:Branch", "trace0:Path5", "key:toggle_hop_details", "key:next_hop", "key:next_hop_address"]}));
    rep.assumptions = vec!["the user-supplied target in the header/tabs is not a hop and is exempt (DESIGN.md 5.7)".into(), "secrets are recognised by unique 6-character prefixes that are not substrings of any locale string".into()];
    rep.finish()
}
