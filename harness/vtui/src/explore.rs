//! E3 for the TUI: level-synchronous BFS over event histories.  Live objects cannot be copied
//! (`TuiApp` is neither `Clone` nor `Send`), so a state *is* the history that reaches it and is
//! rebuilt by replay; the visited set holds canonical keys.

use crate::tuiworld::{TraceEv, World, WorldCfg};
use std::collections::HashSet;
use std::sync::Mutex;
use vcore::mc::{self, PanicInfo};

#[derive(Debug, Clone, Copy, PartialEq, Eq, Hash)]
pub enum Ev {
    Key(&'static str),
    Trace(TraceEv, usize),
    /// A command, and a trace update that lands before the frontend next looks at the tracer (the
    /// tracer thread wins the race between the key handler and the top of the `run_app` loop).
    KeyTrace(&'static str, TraceEv, usize),
}

impl Ev {
    pub fn name(&self) -> String {
        match self {
            Ev::Key(k) => format!("key:{k}"),
            Ev::Trace(t, i) => format!("trace{i}:{t:?}"),
            Ev::KeyTrace(k, t, i) => format!("key:{k}+trace{i}:{t:?}"),
        }
    }
}

#[derive(Debug, Clone)]
pub struct StepFail {
    pub phase: String,
    pub key: String,
    pub detail: String,
}

/// One turn of `run_app` after `ev`: the event, then snapshot/clamp/order (unless frozen), the
/// invariants, the draw.  `check` runs after the draw (e.g. the privacy oracle).
pub fn step(w: &mut World, ev: Option<Ev>, check: &mut dyn FnMut(&World, &mut Vec<StepFail>)) -> Vec<StepFail> {
    let mut fails = vec![];
    let fail_panic = |phase: &str, p: PanicInfo| StepFail { phase: phase.to_string(), key: format!("{}@{phase}", p.key()), detail: format!("{} at {}:{}", p.message, p.file, p.line) };
    let privacy_before = w.app.tui_config.privacy_max_ttl;
    let hop_count_before = {
        let a = &w.app;
        let ok = a.selected_flow.0 == 0 || a.selected_tracer_data.flows().iter().any(|(_, id)| *id == a.selected_flow);
        // (before the first snapshot the displayed data is `State::default()`, which has no flows)
        if ok { mc::catch(|| a.selected_tracer_data.hops_for_flow(a.selected_flow).len()).unwrap_or(0) } else { 0 }
    };
    let main_mode = !w.app.show_help && !w.app.show_settings;
    set_stage(&format!("handling {}", ev.map_or("start".to_string(), |e| e.name())));
    if let Some(ev) = ev {
        let r = mc::catch(|| match ev {
            Ev::Key(k) => {
                w.press(k);
            }
            Ev::Trace(t, i) => w.trace_event(t, i),
            Ev::KeyTrace(k, t, i) => {
                w.press(k);
                w.trace_event(t, i);
            }
        });
        if let Err(p) = r {
            let phase = match ev {
                Ev::Key(k) | Ev::KeyTrace(k, ..) => format!("command:{k}"),
                Ev::Trace(..) => "trace-update".to_string(),
            };
            fails.push(fail_panic(&phase, p));
            return fails;
        }
    }
    // C18 keyboard half: expanding / contracting privacy moves n by exactly one step between
    // off, 0 and the current hop count
    if main_mode {
        let after = w.app.tui_config.privacy_max_ttl;
        let want = match ev {
            Some(Ev::Key("expand_privacy")) => Some(match privacy_before {
                None => Some(0),
                Some(k) if usize::from(k) < hop_count_before => Some(k + 1),
                Some(k) => Some(k),
            }),
            Some(Ev::Key("contract_privacy")) => Some(match privacy_before {
                None => None,
                Some(0) => None,
                Some(k) => Some(k - 1),
            }),
            _ => None,
        };
        if let Some(want) = want {
            if after != want {
                fails.push(StepFail { phase: "oracle".into(), key: format!("privacy-step:{}", ev.map(|e| e.name()).unwrap_or_default()), detail: format!("privacy was {privacy_before:?} with {hop_count_before} hops, became {after:?}, expected {want:?}") });
            }
        }
    }
    if let Err(p) = mc::catch(|| w.loop_top()) {
        fails.push(fail_panic("loop-top", p));
        return fails;
    }
    invariants(w, &mut fails);
    set_stage(&format!("drawing the frame after {} at {}x{}", ev.map_or("start".to_string(), |e| e.name()), w.cfg.size.0, w.cfg.size.1));
    if let Err(p) = mc::catch(|| w.draw()) {
        fails.push(fail_panic("draw", p));
        return fails;
    }
    check(w, &mut fails);
    fails
}

/// The selected hop, hop address, flow, trace and settings tab refer to entries that exist in
/// the data being displayed.
pub fn invariants(w: &World, fails: &mut Vec<StepFail>) {
    let a = &w.app;
    let mut bad = |key: &str, detail: String| fails.push(StepFail { phase: "invariant".into(), key: format!("invariant:{key}"), detail });
    let st = &a.selected_tracer_data;
    if a.trace_selected >= a.trace_info.len() {
        bad("selected-trace", format!("{} of {}", a.trace_selected, a.trace_info.len()));
    }
    if a.settings_tab_selected >= 7 {
        bad("settings-tab", format!("{}", a.settings_tab_selected));
    }
    let flow_ok = a.selected_flow.0 == 0 || st.flows().iter().any(|(_, id)| *id == a.selected_flow);
    if !flow_ok {
        bad("selected-flow", format!("flow {} is selected but the displayed data has flows {:?}", a.selected_flow.0, st.flows().iter().map(|(_, i)| i.0).collect::<Vec<_>>()));
        return;
    }
    let hops = st.hops_for_flow(a.selected_flow);
    if let Some(sel) = a.table_state.selected() {
        if sel >= hops.len() {
            bad("selected-hop", format!("hop index {sel} selected but the displayed flow has {} hops", hops.len()));
        } else {
            let n = hops[sel].addr_count();
            if a.selected_hop_address >= n.max(1) {
                bad("selected-hop-address", format!("address index {} selected but hop {} has {n} addresses", a.selected_hop_address, hops[sel].ttl()));
            }
        }
    }
}

thread_local! {
    static STAGE_SLOT: std::cell::RefCell<Option<std::sync::Arc<Mutex<String>>>> = const { std::cell::RefCell::new(None) };
}

/// What the current job is doing (read by the pool when it declares the job hung).
pub fn set_stage(what: &str) {
    STAGE_SLOT.with(|s| {
        if let Some(slot) = s.borrow().as_ref() {
            *slot.lock().unwrap_or_else(std::sync::PoisonError::into_inner) = what.to_string();
        }
    });
}

/// Outcome of one pooled job.
pub enum Done<R> {
    Ok(R),
    /// the job did not return within the time limit; its thread was abandoned (`stage` = what it
    /// was doing)
    Hung { stage: String },
    /// the job panicked outside the captured calls (a defect of the harness)
    Crashed(String),
}

pub const JOB_TIMEOUT_S: u64 = 20;

/// Run `f` over `jobs` on a pool of detached helper threads.  Code under test that never returns
/// (observed: ratatui 0.29's cassowary layout solver cycling inside `Terminal::draw` for some
/// hash-map iteration orders) costs one abandoned thread, not the whole run.
pub fn run_jobs<J: Send + 'static, R: Send + 'static>(jobs: Vec<J>, f: fn(J) -> R) -> Vec<Done<R>> {
    use std::collections::VecDeque;
    use std::sync::mpsc;
    use std::sync::Arc;
    use std::time::{Duration, Instant};
    let n = jobs.len();
    let queue: Arc<Mutex<VecDeque<(usize, J)>>> = Arc::new(Mutex::new(jobs.into_iter().enumerate().collect()));
    // per job: (start, stage slot)
    let started: Arc<Mutex<Vec<Option<(Instant, Arc<Mutex<String>>)>>>> = Arc::new(Mutex::new((0..n).map(|_| None).collect()));
    let (tx, rx) = mpsc::channel::<(usize, Result<R, String>)>();
    let spawn_helper = || {
        let (queue, started, tx) = (queue.clone(), started.clone(), tx.clone());
        std::thread::spawn(move || loop {
            let Some((idx, job)) = queue.lock().unwrap_or_else(std::sync::PoisonError::into_inner).pop_front() else { return };
            let slot = Arc::new(Mutex::new(String::from("starting")));
            STAGE_SLOT.with(|s| *s.borrow_mut() = Some(slot.clone()));
            started.lock().unwrap_or_else(std::sync::PoisonError::into_inner)[idx] = Some((Instant::now(), slot));
            let r = std::panic::catch_unwind(std::panic::AssertUnwindSafe(|| f(job))).map_err(|e| mc::panic_message(&e));
            if tx.send((idx, r)).is_err() {
                return;
            }
        });
    };
    for _ in 0..mc::workers().min(n.max(1)) {
        spawn_helper();
    }
    let mut out: Vec<Option<Done<R>>> = (0..n).map(|_| None).collect();
    let mut remaining = n;
    while remaining > 0 {
        match rx.recv_timeout(Duration::from_millis(250)) {
            Ok((idx, r)) => {
                if out[idx].is_none() {
                    out[idx] = Some(match r {
                        Ok(v) => Done::Ok(v),
                        Err(m) => Done::Crashed(m),
                    });
                    remaining -= 1;
                }
            }
            Err(mpsc::RecvTimeoutError::Timeout) => {
                let st = started.lock().unwrap_or_else(std::sync::PoisonError::into_inner);
                let hung: Vec<(usize, String)> = st
                    .iter()
                    .enumerate()
                    .filter(|(i, s)| out[*i].is_none() && s.as_ref().is_some_and(|(t, _)| t.elapsed() > Duration::from_secs(JOB_TIMEOUT_S)))
                    .map(|(i, s)| (i, s.as_ref().unwrap().1.lock().unwrap_or_else(std::sync::PoisonError::into_inner).clone()))
                    .collect();
                drop(st);
                for (i, stage) in hung {
                    out[i] = Some(Done::Hung { stage });
                    remaining -= 1;
                    // keep the degree of parallelism: the stuck helper never comes back
                    spawn_helper();
                }
            }
            Err(mpsc::RecvTimeoutError::Disconnected) => break,
        }
    }
    out.into_iter().map(|o| o.unwrap_or(Done::Crashed("helper threads vanished".into()))).collect()
}

pub type MakeCheck = fn() -> Box<dyn FnMut(&World, &mut Vec<StepFail>)>;

fn hung_fail(stage: &str) -> StepFail {
    let what = if stage.starts_with("drawing") { "draw" } else { "command" };
    StepFail { phase: "hang".into(), key: format!("never-returns:{what}"), detail: format!("no return within {JOB_TIMEOUT_S} s while {stage}") }
}

/// Replay `hist` as a pooled job: (canonical key of the final state or 0, failures of the last step).
fn replay_job((cfg, hist, make_check): (WorldCfg, Vec<Ev>, MakeCheck)) -> (u64, Vec<StepFail>) {
    let mut chk = make_check();
    let (w, f) = replay(&cfg, &hist, &mut *chk);
    (w.as_ref().map_or(0, World::key), f)
}

/// Replay many histories on the pool; a history whose replay hangs yields a "hang" failure.
pub fn replay_all(cfg: &WorldCfg, hists: &[Vec<Ev>], make_check: MakeCheck) -> Vec<(u64, Vec<StepFail>)> {
    let jobs: Vec<(WorldCfg, Vec<Ev>, MakeCheck)> = hists.iter().map(|h| (cfg.clone(), h.clone(), make_check)).collect();
    run_jobs(jobs, replay_job)
        .into_iter()
        .zip(hists)
        .map(|(d, h)| match d {
            Done::Ok(x) => x,
            Done::Hung { stage } => {
                // does this history hang every time?  (twice more, alone)
                let again = (0..2).all(|_| matches!(run_jobs(vec![(cfg.clone(), h.clone(), make_check)], replay_job).pop(), Some(Done::Hung { .. })));
                let mut f = hung_fail(&stage);
                if !again {
                    // the same history returned when replayed on another thread: the hang depends on
                    // something outside the history (hash-map iteration order in a dependency)
                    f.key.push_str(":not-reproducible");
                    f.detail.push_str("; the same history returned normally when replayed again");
                }
                (0, vec![f])
            }
            Done::Crashed(m) => panic!("MACHINERY: a replay job crashed: {m}"),
        })
        .collect()
}

/// Time slice of the search phase in progress (thorough tiers): a breadth-first search that is
/// still running when it ends stops after the chunk of replays it is working on and reports what
/// it covered.  `None` = no slice.
static PHASE_DEADLINE: std::sync::Mutex<Option<std::time::Instant>> = std::sync::Mutex::new(None);
/// Number of searches cut short by their time slice so far.
static PHASES_CUT: std::sync::atomic::AtomicU64 = std::sync::atomic::AtomicU64::new(0);

pub fn set_phase_slice(secs: Option<u64>) {
    *PHASE_DEADLINE.lock().unwrap() = secs.map(|s| std::time::Instant::now() + std::time::Duration::from_secs(s));
}

fn phase_slice_over() -> bool {
    PHASE_DEADLINE.lock().unwrap().is_some_and(|d| std::time::Instant::now() > d)
}

pub fn phases_cut() -> u64 {
    PHASES_CUT.load(std::sync::atomic::Ordering::Relaxed)
}

pub struct BfsResult {
    pub states: u64,
    pub transitions: u64,
    pub max_depth: usize,
    pub fixpoint: bool,
    pub fails: Vec<(Vec<Ev>, StepFail)>,
    /// histories of all reached states (for re-drawing at other sizes)
    pub reached: Vec<Vec<Ev>>,
}

/// Replay a history on a fresh world; returns the world and the failures of the LAST step only.
pub fn replay(cfg: &WorldCfg, hist: &[Ev], check: &mut dyn FnMut(&World, &mut Vec<StepFail>)) -> (Option<World>, Vec<StepFail>) {
    let mut w = World::new(cfg);
    let mut none = |_: &World, _: &mut Vec<StepFail>| {};
    let f0 = step(&mut w, None, if hist.is_empty() { check } else { &mut none });
    if !f0.is_empty() {
        return (None, f0);
    }
    for (i, ev) in hist.iter().enumerate() {
        let last = i + 1 == hist.len();
        let f = step(&mut w, Some(*ev), if last { check } else { &mut none });
        if !f.is_empty() {
            return (if f.iter().all(|x| x.phase == "invariant" || x.phase == "oracle") { Some(w) } else { None }, f);
        }
    }
    (Some(w), vec![])
}

pub fn bfs(
    cfg: &WorldCfg,
    alphabet: &[Ev],
    root: &[Ev],
    max_depth: usize,
    max_states: usize,
    make_check: MakeCheck,
) -> BfsResult {
    bfs_bounded(cfg, alphabet, root, max_depth, max_states, &|_| 0, usize::MAX, make_check)
}

/// As `bfs`, with a deviation bound: every event has a cost (0 = free move such as navigation,
/// 1 = an action), a history may spend at most `cost_bound`; states are de-duplicated on
/// (canonical key, cost spent) so that a costlier path never hides a cheaper one.
#[allow(clippy::too_many_arguments)]
pub fn bfs_bounded(
    cfg: &WorldCfg,
    alphabet: &[Ev],
    root: &[Ev],
    max_depth: usize,
    max_states: usize,
    cost: &(dyn Fn(&Ev) -> usize + Sync),
    cost_bound: usize,
    make_check: MakeCheck,
) -> BfsResult {
    bfs_roots(cfg, alphabet, &[root.to_vec()], max_depth, max_states, cost, cost_bound, make_check)
}

/// The general form: several root histories (e.g. every state of a navigation fixpoint); the
/// roots themselves are free, cost is counted on the events this search appends.
#[allow(clippy::too_many_arguments)]
pub fn bfs_roots(
    cfg: &WorldCfg,
    alphabet: &[Ev],
    roots: &[Vec<Ev>],
    max_depth: usize,
    max_states: usize,
    cost: &(dyn Fn(&Ev) -> usize + Sync),
    cost_bound: usize,
    make_check: MakeCheck,
) -> BfsResult {
    let mut res = BfsResult { states: 0, transitions: 0, max_depth: 0, fixpoint: false, fails: vec![], reached: vec![] };
    let mut seen: HashSet<u64> = HashSet::new();
    let bounded = cost_bound != usize::MAX;
    let skey = |key: u64, spent: usize| if bounded { mc::hash64(&(key, spent)) | 1 } else { key };
    // (history, cost spent)
    let mut frontier: Vec<(Vec<Ev>, usize)> = vec![];
    for (root, (wkey, f)) in roots.iter().zip(replay_all(cfg, roots, make_check)) {
        for x in f {
            res.fails.push((root.clone(), x));
        }
        if wkey != 0 && seen.insert(skey(wkey, 0)) {
            res.states += 1;
            res.reached.push(root.clone());
            frontier.push((root.clone(), 0));
        }
    }
    for depth in 1..=max_depth {
        if frontier.is_empty() {
            res.fixpoint = true;
            break;
        }
        if mc::past_soft_deadline() {
            break;
        }
        if phase_slice_over() {
            PHASES_CUT.fetch_add(1, std::sync::atomic::Ordering::Relaxed);
            break;
        }
        let jobs: Vec<(usize, usize)> = (0..frontier.len())
            .flat_map(|n| (0..alphabet.len()).map(move |e| (n, e)))
            .filter(|(n, e)| frontier[*n].1 + cost(&alphabet[*e]) <= cost_bound)
            .collect();
        let hists: Vec<Vec<Ev>> = jobs
            .iter()
            .map(|(n, e)| {
                let mut h = frontier[*n].0.clone();
                h.push(alphabet[*e]);
                h
            })
            .collect();
        // a level is replayed in chunks so that a time slice can end inside a large level (the
        // part of the level not replayed is simply not explored; the result says so)
        let mut replayed: Vec<(u64, Vec<StepFail>)> = Vec::with_capacity(hists.len());
        let mut cut = false;
        for chunk in hists.chunks(20_000) {
            if !replayed.is_empty() && (phase_slice_over() || mc::past_soft_deadline()) {
                cut = true;
                break;
            }
            replayed.extend(replay_all(cfg, chunk, make_check));
        }
        if cut {
            PHASES_CUT.fetch_add(1, std::sync::atomic::Ordering::Relaxed);
        }
        let mut out: Vec<(u64, Vec<Ev>, usize, Vec<StepFail>)> = replayed
            .into_iter()
            .zip(hists)
            .zip(&jobs)
            .map(|(((key, f), h), (n, e))| (key, h, frontier[*n].1 + cost(&alphabet[*e]), f))
            .collect();
        // deterministic order regardless of thread scheduling
        out.sort_by(|a, b| a.1.iter().map(Ev::name).collect::<Vec<_>>().cmp(&b.1.iter().map(Ev::name).collect::<Vec<_>>()));
        res.transitions += out.len() as u64;
        let mut next = vec![];
        for (key, h, spent, f) in out {
            let fatal = f.iter().any(|x| x.phase != "invariant" && x.phase != "oracle");
            for x in f {
                res.fails.push((h.clone(), x));
            }
            if !fatal && key != 0 && seen.insert(skey(key, spent)) {
                res.states += 1;
                res.max_depth = depth;
                res.reached.push(h.clone());
                next.push((h, spent));
            }
        }
        frontier = next;
        if res.states as usize > max_states || cut {
            break;
        }
        if depth == max_depth && frontier.is_empty() {
            res.fixpoint = true;
        }
    }
    res
}
