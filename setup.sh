#!/bin/bash
# setup_cmd: build the harness workspace offline from files on disk only.
set -eu
ROOT="$(cd "$(dirname "$0")" && pwd)"
export CARGO_NET_OFFLINE=true
cd "$ROOT/harness"
cargo build --release --offline --workspace
