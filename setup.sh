#!/bin/bash
# setup_cmd: build the harness workspace offline from files on disk only.
set -eu
ROOT="$(cd "$(dirname "$0")" && pwd)"
export CARGO_NET_OFFLINE=true
# always build into (and run from) the harness target directory, whatever the caller exported
export CARGO_TARGET_DIR="$ROOT/harness/target"
unset RUSTFLAGS CARGO_BUILD_RUSTFLAGS CARGO_ENCODED_RUSTFLAGS
cd "$ROOT/harness"
cargo build --release --offline --workspace
