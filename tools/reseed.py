#!/usr/bin/env python3
"""tools/reseed.py <lane> <nlanes>: regression over the kept seeded changes - apply each
seeded/<id>/patch.diff to a scratch worktree of the current /repo HEAD, run the quick checks listed in
its meta.json `caught_by` (VERIF_REPO tooling mode) and record whether each still reports a violation.
Results: /verif/seeded/RESEED.jsonl (appended)."""
import json, os, subprocess, sys, glob
lane, nl = int(sys.argv[1]), int(sys.argv[2])
base = f"/tmp/mut/lane{lane}"
repo = f"{base}/repo"
head = subprocess.run("git -C /repo rev-parse HEAD", shell=True, capture_output=True, text=True).stdout.strip()
if not os.path.isdir(repo):
    os.makedirs(base, exist_ok=True)
    subprocess.run(f"git -C /repo worktree add --detach {repo} HEAD -q", shell=True)
subprocess.run(f"git -C {repo} reset -q --hard ; git -C {repo} clean -fdq ; git -C {repo} checkout -q --detach {head}", shell=True)
env = dict(os.environ, VERIF_REPO=repo, VERIF_ALT_TARGET=f"{base}/target", VERIF_ALT_OUT=f"{base}/out")
done = set()
out = "/verif/seeded/RESEED.jsonl"
if os.path.exists(out):
    done = {json.loads(l)["id"] + json.loads(l)["head"] for l in open(out)}
for i, d in enumerate(sorted(glob.glob("/verif/seeded/*/meta.json"))):
    if i % nl != lane:
        continue
    m = json.load(open(d))
    sid = m["id"]
    if sid + head in done:
        continue
    subprocess.run(f"git -C {repo} reset -q --hard ; git -C {repo} clean -fdq", shell=True)
    a = subprocess.run(f"git -C {repo} apply {os.path.dirname(d)}/patch.diff", shell=True, capture_output=True, text=True)
    rec = {"id": sid, "head": head, "applies": a.returncode == 0, "checks": {}}
    if a.returncode == 0:
        for c in m["caught_by"]:
            r = subprocess.run(f"cd /verif && timeout 900 ./check {c} --tier quick", shell=True, capture_output=True, text=True, env=env)
            rec["checks"][c] = r.returncode
    with open(out, "a") as fh:
        fh.write(json.dumps(rec) + "\n")
    print(lane, sid, rec["applies"], rec["checks"], flush=True)
subprocess.run(f"git -C {repo} reset -q --hard ; git -C {repo} clean -fdq", shell=True)
