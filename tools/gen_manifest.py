#!/usr/bin/env python3
"""Generate /verif/MANIFEST.json from the table below (kept next to the code so it stays current)."""
import json, os, subprocess
ROOT = os.path.dirname(os.path.dirname(os.path.abspath(__file__)))

ASSUME_SIM = "simulated socket layer behaves like a kernel (DESIGN.md 5.12); harness wire codec self-tested against captures from the repository; virtual clock via clock_gettime interposition (self-tested at start-up)"

CHECKS = {
 "C01": dict(cat="model_checking", engine="E1+E2",
   technique="stateless deviation-bounded exhaustive exploration (prefix-replay DFS) of the real tracer over a simulated socket, ground-truth oracle",
   text="All executions of the real Builder->Tracer->Strategy->Channel<SimSocket>->codec->State stack with <= d deviations (delay, reorder, duplicate, loss) from the ideal network, for all 56 configuration cells x 8 topologies x first-ttl{1,2}; every published slot is compared with the simulator's ground-truth log (who answered which datagram when) and snapshot totals with the sums of published outcomes.",
   note=ASSUME_SIM, ref="3/C01"),
}

NOT_YET = {
}

def main():
    props = [json.loads(l) for l in open(os.path.join(ROOT, "properties.jsonl"))]
    hooks_commits = []
    try:
        out = subprocess.run(["git", "-C", "/repo", "log", "--format=%H %s"], capture_output=True, text=True).stdout
        for line in out.splitlines():
            h, s = line.split(" ", 1)
            if s.startswith("verif hooks:"):
                hooks_commits.append(h)
    except Exception:
        pass
    checks = []
    na = []
    for p in props:
        pid = p["id"]
        if pid in CHECKS:
            c = CHECKS[pid]
            checks.append({
                "property_id": pid,
                "quick_cmd": f"./check {pid} --tier quick",
                "thorough_cmd": f"./check {pid} --tier thorough",
                "evidence_file": f"/verif/evidence/{pid}.json",
                "replay_cmd_template": "./check {property} --replay {path}",
                "engine": c["engine"],
                "level_claimed": {"category": c["cat"], "text": c["text"], "design_ref": "DESIGN.md section " + c["ref"]},
                "level_note": c["note"],
                "technique": c["technique"],
            })
        else:
            na.append({"property_id": pid, "reason": NOT_YET.get(pid, "check under construction in this session; not claimed until its machinery is committed (model checking applies, see DESIGN.md section 3)")})
    m = {
        "version": 1,
        "setup_cmd": "./setup.sh",
        "hooks": {
            "guard": "cargo feature `verif-hooks` (trippy-core, trippy-dns, trippy-tui)",
            "enable": "harness crates depend on /repo/crates/* by path with features=[\"verif-hooks\"]; ./check rebuilds them from the working tree",
            "baseline_off_cmd": "cd /repo && cargo test --workspace --no-fail-fast --offline",
            "source_commits": hooks_commits,
            "add_only": True,
        },
        "engines": [
            {"name": "E1", "path": "harness/vcore/src/mc.rs", "serves_properties": ["C01","C03","C06","C07","C08","C09","C19"], "kind_free_text": "stateless deviation-bounded explorer (prefix-replay DFS over environment choices)"},
            {"name": "E2", "path": "harness/vcore/src/simnet.rs", "serves_properties": ["C01","C02","C03","C04","C09","C11","C13","C14","C16","C19","C20"], "kind_free_text": "simulated network implementing the real Socket trait + independent RFC wire codec + virtual clock + ground-truth log"},
        ],
        "checks": checks,
        "not_applicable": na,
        "notes": "All checks are ./check <id> --tier quick|thorough; exit 0 held, 1 VIOLATION, 2 machinery failure. Known findings: known_findings.json (never written at run time).",
    }
    with open(os.path.join(ROOT, "MANIFEST.json"), "w") as f:
        json.dump(m, f, indent=1)
    print("wrote MANIFEST.json with", len(checks), "checks;", len(na), "not claimed")

if __name__ == "__main__":
    main()
