#!/usr/bin/env python3
"""Generate /verif/MANIFEST.json from the table below (kept next to the code so it stays current)."""
import json, os, subprocess
ROOT = os.path.dirname(os.path.dirname(os.path.abspath(__file__)))

ASSUME_SIM = "simulated socket layer behaves like a kernel (DESIGN.md 5.12); harness wire codec self-tested against captures from the repository; virtual clock via clock_gettime interposition (self-tested at start-up)"

CHECKS = {
 "C01": dict(cat="model_checking", engine="E1+E2",
   technique="stateless deviation-bounded exhaustive exploration (prefix-replay DFS) of the real tracer over a simulated socket, ground-truth oracle",
   text="All executions of the real Builder->Tracer->Strategy->Channel<SimSocket>->codec->State stack with <= d deviations (delay, reorder, duplicate, loss) from the ideal network, for all 56 configuration cells x 8 topologies x first-ttl{1,2}; every published slot is compared with the simulator's ground-truth log (who answered which datagram when) and snapshot totals with the sums of published outcomes.",
   note=ASSUME_SIM, ref="3/C01"),
 "C04": dict(cat="exploration", engine="E5+E2",
   technique="bounded-exhaustive structure-aware sweeps of the real receive path (Channel<SimSocket>::recv_probe inside a real Strategy::run) and of every packet-view accessor, panics (incl. overflow/debug assertions) captured",
   text="Layer A: every accessor/iterator/Debug of all 19 packet views over swept buffers (every value of each length-bearing field x buffer lengths). Layer B: ~4e8 (quick) datagrams built from the probe the real dispatch emitted - every structural octet x all 256 values x received lengths, 16-bit fields x boundary sets (all 2^16 in thorough), truncation/padding at every length, small-alphabet strings at header starts - through the real receive path and strategy conversion for 18 configurations. Oracle: no panic of any kind, no looping.",
   note="harness build enables overflow checks and debug assertions for the trippy crates (DESIGN.md 2, 5.1); an Err value is allowed; " + ASSUME_SIM, ref="3/C04"),
 "C11": dict(cat="exploration", engine="E5+E2",
   technique="exhaustive per-dimension enumeration of configurations; probes issued by the real strategy, every datagram decoded by an independent RFC codec",
   text="All 56 cells: every packet size min..1024, every ttl 1..254, tos sweeps, payload patterns, boundary initial sequences, illegal sizes; each datagram handed to the simulated socket is decoded with the harness's own RFC decoder and compared with the configuration and with the strategy's own probe record.",
   note=ASSUME_SIM + "; TCP SYN segments are kernel-built (only socket options/addresses checked); zero Paris checksum over IPv6 is an observation (DESIGN.md 5.13)", ref="3/C11"),
 "C12": dict(cat="exploration", engine="E5",
   technique="exhaustive field x value x background enumeration against a hand-written RFC bit-position table",
   text="88 header fields of all packet types: full argument domain for <=16-bit (20-bit in thorough) arguments, one-hot/one-cold/two-hot/boundary patterns for wider ones, over stripe backgrounds (+ every one-hot/one-cold header bit in thorough); whole-buffer comparison with the RFC-positioned expectation; constructor minimum sizes.",
   note="RFC field table in harness/vcore/src/pkt.rs is trusted", ref="3/C12"),
 "C13": dict(cat="exploration", engine="E5+E2",
   technique="exhaustive enumeration of lengths/contents/address pairs against an RFC 1071 reference; all 2^16 Paris sequences through the real dispatch code",
   text="6 public checksum functions x every message length up to 1024 x carry-maximising and positional contents x 3 address pairs, compared with a 64-bit accumulate-then-fold reference and re-verified after insertion; Paris: all 65536 sequences x {v4,v6} x 3 port pairs through real Channel dispatch, checksum field == sequence and datagram verifies.",
   note="domain: whole messages (>= header size), DESIGN.md 5.10; " + ASSUME_SIM, ref="3/C13"),
 "C14": dict(cat="exploration", engine="E5+E2",
   technique="exhaustive enumeration of a grammar of RFC 4884/4950 messages through the real receive path and packet views, plus systematic corruptions",
   text="{v4,v6} x {TE,DU} x parse modes x protocols x {compliant, legacy} x every RFC 4884 length attribute value that fits x all object lists up to length 2 (3 thorough) over 7 object shapes: views must return the original datagram and extension byte-exactly and recv_probe exactly the encoded objects; corruptions (every truncation, every value of every length octet): no panic, termination, containment and non-overlap by pointer arithmetic.",
   note="conformant MPLS stacks have >=1 member, S=1 on the last only; " + ASSUME_SIM, ref="3/C14"),
 "C06": dict(cat="model_checking", engine="E1 (strategy level)",
   technique="stateless deviation-bounded exhaustive exploration of the real Strategy::run/TracerState over an abstract Network; trace monitor oracle",
   text="protocol{icmp,tcp} x first_ttl{1,2,5,30,253,254} x max_ttl{1,3,6,64,254} x max_inflight{1,2,3,24,255} x target distance{1,2,3,6,silent}, 3 rounds: all executions with <= 2 (3 thorough) deviations (delay, reorder, duplicate, loss, AddressInUse); a monitor independent of TracerState checks TTL order, max-ttl, no send after target found, established distance, in-flight window and at least one probe per round on the send/receive call trace.",
   note="abstract Network (responses are Response values, packets are C01/C02's topic); virtual clock", ref="3/C06"),
 "C07": dict(cat="model_checking", engine="E1/E3 (strategy level)",
   technique="explicit walk of the (regime, round-start sequence, round size) graph by driving the real Strategy::run with TCP re-issue bursts; behavioural differential for the round-separation clause",
   text="Every round size 1..=512 (and 513 for the capacity clause) from boundary initial sequences with a variable first round, constant-size walks through two wrap-arounds for every size, the Dublin/IPv6 regime for every probes-per-round value, wire-level Dublin/IPv6 payload lengths; monitor: consecutive, <65535, <=512 per round, next round = last+1 or initial; separation clause decided by delivering a previous-round sequence in the next round and comparing published rounds with an inert replacement.",
   note="round sizes > 254 are produced by AddressInUse bursts at the Network seam; one open known finding (initial sequence 64000..64511)", ref="3/C07"),
 "C08": dict(cat="model_checking", engine="E1 (strategy level)",
   technique="stateless exhaustive exploration of environment answers (which response, how much virtual time) around every timing boundary; event-trace monitor",
   text="40 (min,max,grace) settings in {0,T,2T,3T}^3 x 3 paths; at every receive the environment picks none/any pending response and a time advance in {T,0,1ns,T-1ns}; quick <=3 deviations over 2 rounds, thorough the full product of the first 10 choice points plus <=4 deviations over 3 rounds; monitor: publish iff the stated policy holds at the end of an iteration, never held beyond max+read-timeout, reason, next round starts at the publish instant.",
   note="virtual clock via clock_gettime interposition; reason scoped as DESIGN.md 5.5", ref="3/C08"),
 "C03": dict(cat="model_checking", engine="E1+E2",
   technique="stateless deviation-bounded exhaustive exploration with junk-datagram injection; inert-replacement differential oracle (no strategy reference model)",
   text="14 base cells x 3 topologies x CLI-assigned identifier pairs (pid+i), 3 rounds: all executions with <= 2 (3 thorough) deviations where a deviation is a delay, a loss or the injection of a duplicate, a late previous-round response, a sibling tracer's Time Exceeded / Echo Reply, a quotation with another target / fixed port, or a never-sent sequence (next unissued, start-1, +300, +511, +512); plus 254-probe rounds across sequence wrap-around. Every execution containing junk is re-run with the junk replaced by a datagram the receive path drops at once: published rounds, timestamps and the final snapshot must be identical.",
   note=ASSUME_SIM + "; 'alone' compared via inert replacement (DESIGN.md 5.2)", ref="3/C03"),
 "C09": dict(cat="fault_enumeration", engine="E1+E2",
   technique="exhaustive enumeration of fault position x errno over every socket call of the run (<= k faults, alone and with one scheduling deviation), statement-derived oracle",
   text="9 configurations x round limit {1,2,3} x 2 paths: every send_to/bind/connect/select/read call is a fault position with an errno menu; all executions with <= 1 (2 thorough) faults. No fatal fault => Ok, exactly n rounds numbered 0..n-1; transient => exactly that slot Failed; TCP address-in-use => Skipped + same TTL re-issued under the next sequence; fatal => that error returned, no further round, visible in snapshot; plus silent paths with > 256 outstanding probes.",
   note=ASSUME_SIM + "; errno classification per configuration is the code's contract (DESIGN.md 5.9)", ref="3/C09"),
 "C02": dict(cat="exploration", engine="E5+E2",
   technique="exhaustive enumeration of the finite product (every sequence the real allocator can issue x quotation shape x cell) through real dispatch and receive code; negative half with one identity field altered",
   text="56 cells: the real strategy runs until the allocator wraps so every issuable sequence (0..=65276; Dublin/IPv6 0..=765) is emitted by real dispatch code and answered by a hop whose quotation shape rotates over 13 shapes (hdr+8/28/64, full, unreachable, quoted TTL 0, zeroed checksum, TOS rewritten, outer IHL 6/15, RFC 4884 compliant/legacy, combo); target-originated answers one probe per round; 1024-octet probes (truncated quotations); every slot checked against ground truth. Negative: destination, pinned port, protocol, Dublin marker (each octet), ICMP identifier altered => nothing completes. Thorough = all 13 shape offsets (full sequence x shape product).",
   note=ASSUME_SIM + "; per-round flow port is an observation (DESIGN.md 5.3)", ref="3/C02"),
 "C19": dict(cat="model_checking", engine="E1+E2",
   technique="bounded-exhaustive enumeration of topologies (every placement of <=2 rewriting devices x every subset of silent hops, paths <=5) with deviation-bounded exploration of each; statement-derived oracle on simulator ground truth",
   text="IPv4/UDP/Dublin x 3 port directions x sizes/patterns: every path with target distance 1..5, every <=2-subset of NAT devices, every subset of silent hops, target answering or silent, 2 rounds, all executions with <=2 (3 thorough) scheduling deviations; Hop::last_nat_status() in the snapshot taken at every publish equals the statement's rule evaluated on the checksums the simulator's hops actually quoted; every other cell NotApplicable.",
   note=ASSUME_SIM + "; NAT model: RFC 1624 incremental checksum adjustment, addresses restored in quotations", ref="3/C19"),
 "C05": dict(cat="model_checking", engine="E3",
   technique="explicit-state search over round histories on the real State (depth-bounded DFS, de-duplicated on all getter results); oracle = independent recomputation from the list of rounds, itself validated against the repository's scenario files",
   text="54-shape round alphabet (2 hops x 7 outcomes + re-issue/short/long fillers; 3 hops in one configuration) x first_ttl{1,2,250} x max_samples{0,1,2,256}: all histories to depth 3 (4 thorough), oracle after every round over every getter (counts, loss, forward/backward loss, last/best/worst/avg, two-pass stddev, jitter/javg/jmax/jinta, addresses, last-probe fields, bounded newest-first samples) plus the listed inequalities; de Bruijn order-3 long histories (1500/5000 rounds); rounds produced by the real strategy over the simulated network.",
   note="reference model in harness/vcore/src/refstate.rs (reproduces the 143 expected values of the 9 scenario files at start-up); synthetic rounds obey the strategy's contract (DESIGN.md 5.4)", ref="3/C05"),
 "C10": dict(cat="model_checking", engine="E3 + E1/E2",
   technique="explicit-state search over round histories with varying path length on the real State + deviation-bounded exploration of real executions; statement-derived oracle on the hop table",
   text="14 round shapes (path length 1..4, silent/answering target, unknown hops, failed/re-issued probes) x first_ttl{1,2,5}: all histories to depth 4 (5 thorough); and 14 cells x 8 topologies x first_ttl{1,2,3} real executions with <=1 (2) deviations, snapshot at every publish: hops() empty iff no path length, consecutive TTLs from the lowest probed to the greatest path length, target hop at the latest length, true distance on undisturbed stable paths, queries never panic (empty state included).",
   note="synthetic rounds obey the strategy's contract (DESIGN.md 5.4); " + ASSUME_SIM, ref="3/C10"),
 "C15": dict(cat="model_checking", engine="E3",
   technique="explicit-state search over ECMP round histories on the real State/FlowRegistry; invariants of the statement evaluated after every round by replay, statistics against the C05 reference",
   text="19 round shapes (path length 1..3, per-hop address a1/a2/unknown, failed probes) x first_ttl{1,2} x max_flows{1,2,3,64}: all histories to depth 4 (5 thorough): dense ids, flows only gain information, attributed flow agrees with the round position by position (position = TTL - first probed TTL), <= max_flows, cap behaviour (matching rounds still attributed, nothing created), default flow = all rounds, every flow's round count and hop statistics = recomputation over exactly its rounds.",
   note="synthetic rounds obey the strategy's contract (DESIGN.md 5.4); entries beyond the round's path length are not judged", ref="3/C15"),
 "C20": dict(cat="model_checking", engine="E4",
   technique="controlled-scheduler exhaustive enumeration of all thread interleavings at lock operations of the real Tracer (real OS threads, real parking_lot lock behind an observable wrapper); linearizability oracle against the sequential State",
   text="Tracer thread (R rounds over the simulated network, incl. the fatal-error path) x snapshot reader threads x a clear() thread on one real Tracer: a scheduling point at every lock acquisition attempt and thread start/end, ALL schedules enumerated with no preemption bound (quick: 4 configurations, ~10^4 schedules; thorough: 7 configurations up to R=4, 3 snapshots, 2 clears, two readers). Every observed snapshot must be explained by a total order, consistent with real-time order, of whole apply(round)/clear/set_error operations replayed on a fresh real State.",
   note="only the RwLock operations in tracer.rs are scheduling points (the only shared mutable state; safe Rust elsewhere); " + ASSUME_SIM, ref="3/C20"),
 "C16": dict(cat="exploration", engine="E5 (+E2)",
   technique="exhaustive pairwise (t=2) enumeration of option placements through the real CLI parser, TOML deserialiser and build_config with a differential oracle; full builder parameter grid executed over the simulated network",
   text="(a) 116 layered options x every pair x every pair of placements {absent, file, CLI, both} x contexts/backgrounds: the effective TrippyConfig must equal the configuration obtained by giving each option's effective value (CLI, else file, else default) on the command line only (or both are rejected); every option first shown to have an effect. (b) Builder grid over protocol x strategy x port direction x family x first/max ttl x max-inflight x initial sequence x packet size x privilege (x extension mode x timing profile in thorough): every accepted configuration is run with and without responses; a panic is a violation.",
   note="differential oracle: a field that ignores both sources identically is only caught by the has-an-effect pre-check; start_tracer's CLI->builder mapping is not executed (it opens real sockets); " + ASSUME_SIM, ref="3/C16"),
 "C17": dict(cat="model_checking", engine="E3 (TUI)",
   technique="explicit-state BFS over histories of UI commands interleaved with trace updates on the real TuiApp + render (TestBackend), de-duplicated on a canonical key; panics and selection invariants as oracle",
   text="Events = every binding of run_app's dispatch chain under the same mode gating (table self-checked against the source) + 7 trace updates per target; each step = one turn of run_app (snapshot/clamp/order unless frozen, draw). Full alphabet to depth 3 (4 thorough) for the main configuration, 2-3 for five others (two targets, first-ttl 3/one flow, all columns, one column, 1x1 terminal); projected alphabets (navigation/flows/freeze, settings dialog, display modes) to depth 5-6 (9 thorough); reached states re-drawn at 63 (quick) / ~900 (thorough) terminal sizes from 1x1 to 300x100.",
   note="command table replicates run_app (self-check turns drift into a machinery failure); counters/latencies not in the canonical key; DNS cache pre-seeded, clock pinned, GeoIP fixture generated", ref="3/C17"),
 "C18": dict(cat="model_checking", engine="E3 (TUI)",
   technique="explicit-state BFS over UI/trace histories on the real TuiApp + render; every drawn frame searched for the secrets of hidden hops",
   text="Every hop address carries recognisable address/hostname/AS/GeoIP text; after every draw every row of the TestBackend buffer is searched for the 6-character prefixes of all secrets of all responding hops with TTL <= n (all flows) and of the source address. 23-event alphabet to depth 4 (6 thorough); 6 AS modes x 4 GeoIP modes x 3 address modes with rotating initial n from a populated multi-flow trace; positive half (hops above n visible at 140 columns); keyboard half (each expand/contract step compared with off->0->..->hop count); reached states re-drawn at other sizes with the oracle on each frame.",
   note="the user-supplied target in the header/tabs is exempt (DESIGN.md 5.7); same trusted base as C17", ref="3/C18"),
}

NOT_YET = {
}

def main():
    props = [json.loads(l) for l in open(os.path.join(ROOT, "properties.jsonl"))]
    hooks_commits = []
    try:
        out = subprocess.run(["git", "-C", "/repo", "log", "--format=%H %s"], capture_output=True, text=True).stdout
        for line in out.splitlines():
            h, s = line.split(" ", 1)
            if s.startswith("verif hooks:"):
                hooks_commits.append(h)
    except Exception:
        pass
    checks = []
    na = []
    for p in props:
        pid = p["id"]
        if pid in CHECKS:
            c = CHECKS[pid]
            checks.append({
                "property_id": pid,
                "quick_cmd": f"./check {pid} --tier quick",
                "thorough_cmd": f"./check {pid} --tier thorough",
                "evidence_file": f"/verif/evidence/{pid}.json",
                "replay_cmd_template": "./check {property} --replay {path}",
                "engine": c["engine"],
                "level_claimed": {"category": c["cat"], "text": c["text"], "design_ref": "DESIGN.md section " + c["ref"]},
                "level_note": c["note"],
                "technique": c["technique"],
            })
        else:
            na.append({"property_id": pid, "reason": NOT_YET.get(pid, "check under construction in this session; not claimed until its machinery is committed (model checking applies, see DESIGN.md section 3)")})
    m = {
        "version": 1,
        "setup_cmd": "./setup.sh",
        "hooks": {
            "guard": "cargo feature `verif-hooks` (trippy-core, trippy-dns, trippy-tui)",
            "enable": "harness crates depend on /repo/crates/* by path with features=[\"verif-hooks\"]; ./check rebuilds them from the working tree",
            "baseline_off_cmd": "cd /repo && cargo test --workspace --no-fail-fast --offline",
            "source_commits": hooks_commits,
            "add_only": True,
        },
        "engines": [
            {"name": "E1", "path": "harness/vcore/src/mc.rs", "serves_properties": ["C01","C03","C06","C07","C08","C09","C19"], "kind_free_text": "stateless deviation-bounded explorer (prefix-replay DFS over environment choices)"},
            {"name": "E3", "path": "harness/vcore/src/stateexp.rs", "serves_properties": ["C05","C10","C15"], "kind_free_text": "explicit-state depth-bounded search over round histories on the real State, de-duplicated on canonical keys (all getter results)"},
            {"name": "E4", "path": "harness/vcore/src/sched.rs", "serves_properties": ["C20"], "kind_free_text": "controlled scheduler for real OS threads: baton passing at every lock operation of trippy-core's observable RwLock wrapper, schedules enumerated by prefix-replay DFS"},
            {"name": "E3-TUI", "path": "harness/vtui/src/explore.rs", "serves_properties": ["C17","C18"], "kind_free_text": "level-synchronous BFS over event histories replayed on the real TuiApp/render (ratatui TestBackend) with canonical-key de-duplication"},
            {"name": "E2", "path": "harness/vcore/src/simnet.rs", "serves_properties": ["C01","C02","C03","C04","C09","C11","C13","C14","C16","C19","C20"], "kind_free_text": "simulated network implementing the real Socket trait + independent RFC wire codec + virtual clock + ground-truth log"},
        ],
        "checks": checks,
        "not_applicable": na,
        "notes": "All checks are ./check <id> --tier quick|thorough; exit 0 held, 1 VIOLATION, 2 machinery failure. Known findings: known_findings.json (never written at run time).",
    }
    with open(os.path.join(ROOT, "MANIFEST.json"), "w") as f:
        json.dump(m, f, indent=1)
    print("wrote MANIFEST.json with", len(checks), "checks;", len(na), "not claimed")

if __name__ == "__main__":
    main()
