#!/usr/bin/env python3
"""tools/mutants.py  gen | run <lane> <nlanes> | report

A small mutation campaign over the code regions the properties are anchored in (properties.jsonl
`anchors.mechanism[].where`).  One syntactic change per mutant (relational / arithmetic / boolean
operator, off-by-one constant, min<->max, is_some<->is_none, mask bit, saturating->wrapping); each
mutant is applied to a scratch worktree of the repository (never /repo), the harness is rebuilt
against it (`VERIF_REPO` tooling mode of ./check) and the quick checks of the properties anchored
at that line are run.  killed = some check exits 1; survived = all exit 0; stillborn = does not
compile; machinery = a check exits 2 (a defect of the harness, to be repaired).

Results: /verif/mutants/results.jsonl (one line per mutant), summarised by `report`.
This is tooling for judging the checks; no MANIFEST command depends on it.
"""
import json, os, re, subprocess, sys, hashlib

ROOT = "/verif"
OUT = f"{ROOT}/mutants"
LANES = "/tmp/mut"

OPS = [
    (r" <= ", " < "), (r" < ", " <= "), (r" >= ", " > "), (r" > ", " >= "),
    (r" == ", " != "), (r" != ", " == "),
    (r" && ", " || "), (r" \|\| ", " && "),
    (r" \+ 1\b", " + 0"), (r" - 1\b", " - 0"), (r" \+ 1\b", " + 2"),
    (r" \+ ", " - "), (r" - ", " + "),
    (r"\.min\(", ".max("), (r"\.max\(", ".min("),
    (r"\.is_some\(\)", ".is_none()"), (r"\.is_none\(\)", ".is_some()"),
    (r"\bsaturating_sub\(", "wrapping_sub("), (r"\bsaturating_add\(", "wrapping_add("),
    (r" & ", " | "), (r" << ", " >> "), (r" >> ", " << "),
    (r"\btrue\b", "false"), (r"\bfalse\b", "true"),
    (r"\bSome\(([a-z_]+)\)\s*=>\s*\1\b", None),  # placeholder, skipped
    (r"0x0f\b", "0x1f"), (r"0xf0\b", "0xe0"), (r"0xff\b", "0x7f"), (r"0x7f\b", "0xff"),
    (r"\.wrapping_add\(", ".wrapping_sub("),
    (r"\.unwrap_or_default\(\)", ".unwrap_or(1)"),
]
OPS = [(a, b) for a, b in OPS if b is not None]


def regions():
    """(file, lo, hi) -> set of property ids"""
    reg = {}
    for line in open(f"{ROOT}/properties.jsonl"):
        p = json.loads(line)
        for m in p["anchors"].get("mechanism", []):
            cur = None
            # "file:a-b, c-d; file2:e" and the short form ", net/ipv6.rs:261"
            for tok in re.split(r"[;,]", m["where"]):
                tok = tok.strip()
                if not tok:
                    continue
                if ":" in tok:
                    f, _, part = tok.partition(":")
                    f = f.strip()
                    if not f.startswith("crates/") and cur:
                        f = os.path.join(cur.split("/src/")[0], "src", f)
                    cur = f
                else:
                    part = tok
                if cur is None:
                    continue
                part = part.strip()
                if "-" in part:
                    lo, hi = part.split("-")
                    lo, hi = int(lo), int(hi)
                else:
                    lo = int(part)
                    hi = lo + 30
                # the fix commits moved lines by a few; widen
                reg.setdefault((cur, max(1, lo - 6), hi + 12), set()).add(p["id"])
    return reg


def gen():
    os.makedirs(OUT, exist_ok=True)
    reg = regions()
    muts = []
    seen = set()
    for (f, lo, hi), props in sorted(reg.items()):
        path = f"/repo/{f}"
        if not os.path.exists(path):
            continue
        lines = open(path).read().split("\n")
        in_test = False
        for ln in range(lo, min(hi, len(lines)) + 1):
            text = lines[ln - 1]
            s = text.strip()
            if s.startswith("//") or s.startswith("#[") or s.startswith("///") or "assert" in s or "instrument" in s or "tracing::" in s or s.startswith("use "):
                continue
            if "mod tests" in text or "#[cfg(test)]" in text:
                in_test = True
            if in_test:
                break
            for pat, rep in OPS:
                for mt in re.finditer(pat, text):
                    new = text[: mt.start()] + re.sub(pat, rep, text[mt.start() : mt.end()], count=1) + text[mt.end() :]
                    if new == text:
                        continue
                    # skip generics / arrows / lifetimes / string literals
                    before = text[: mt.start()]
                    if before.count('"') % 2 == 1:
                        continue
                    if pat in (r" < ", r" > ") and ("->" in text[max(0, mt.start() - 2) : mt.end() + 2] or "=>" in text[max(0, mt.start() - 2) : mt.end() + 2]):
                        continue
                    key = (f, ln, new)
                    if key in seen:
                        continue
                    seen.add(key)
                    mid = hashlib.sha1(f"{f}:{ln}:{new}".encode()).hexdigest()[:10]
                    muts.append({"id": mid, "file": f, "line": ln, "old": text, "new": new, "op": f"{pat} -> {rep}", "props": sorted(set().union(*[p for (ff, l2, h2), p in reg.items() if ff == f and l2 <= ln <= h2]))})
    # deterministic thinning: at most 2 mutants per line
    per_line = {}
    kept = []
    for m in muts:
        k = (m["file"], m["line"])
        per_line[k] = per_line.get(k, 0) + 1
        if per_line[k] <= 2:
            kept.append(m)
    json.dump(kept, open(f"{OUT}/mutants.json", "w"), indent=0)
    by = {}
    for m in kept:
        by[m["file"]] = by.get(m["file"], 0) + 1
    print(len(muts), "candidates,", len(kept), "kept")
    for f, n in sorted(by.items()):
        print(f"  {n:4d} {f}")


def sh(cmd, **kw):
    return subprocess.run(cmd, shell=True, capture_output=True, text=True, **kw)


def run(lane, nlanes, limit=None):
    lane, nlanes = int(lane), int(nlanes)
    muts = json.load(open(f"{OUT}/mutants.json"))
    done = set()
    res_path = f"{OUT}/results.jsonl"
    if os.path.exists(res_path):
        for l in open(res_path):
            done.add(json.loads(l)["id"])
    base = f"{LANES}/lane{lane}"
    repo = f"{base}/repo"
    if not os.path.isdir(repo):
        os.makedirs(base, exist_ok=True)
        r = sh(f"git -C /repo worktree add --detach {repo} HEAD -q")
        assert r.returncode == 0, r.stderr
    env = dict(os.environ, VERIF_REPO=repo, VERIF_ALT_TARGET=f"{base}/target", VERIF_ALT_OUT=f"{base}/out")
    n = 0
    for i, m in enumerate(muts):
        if i % nlanes != lane or m["id"] in done:
            continue
        if limit and n >= int(limit):
            break
        n += 1
        sh(f"git -C {repo} checkout -- .")
        path = f"{repo}/{m['file']}"
        lines = open(path).read().split("\n")
        if lines[m["line"] - 1] != m["old"]:
            continue
        lines[m["line"] - 1] = m["new"]
        open(path, "w").write("\n".join(lines))
        checks = list(m["props"])
        verdict = "survived"
        detail = {}
        for c in checks:
            r = subprocess.run(f"cd {ROOT} && timeout 900 ./check {c} --tier quick", shell=True, capture_output=True, text=True, env=env)
            detail[c] = r.returncode
            if r.returncode == 2 or r.returncode == 124:
                if "harness build failed" in r.stderr or "could not compile" in r.stderr:
                    verdict = "stillborn"
                    break
                verdict = "machinery"
                detail[c + ":stderr"] = (r.stderr or r.stdout)[-400:]
                break
            if r.returncode == 1:
                verdict = "killed"
                keys = [l.strip() for l in r.stdout.splitlines() if l.strip().startswith("key:")][:2]
                detail[c + ":keys"] = keys
                break
        rec = dict(m, verdict=verdict, detail=detail, lane=lane)
        with open(res_path, "a") as fh:
            fh.write(json.dumps(rec) + "\n")
        print(lane, m["id"], m["file"].split("/")[-1], m["line"], verdict, detail if verdict != "killed" else "", flush=True)
    sh(f"git -C {repo} checkout -- .")


def stage2(lane, nlanes):
    """Survivors of stage 1 against ALL twenty quick checks."""
    lane, nlanes = int(lane), int(nlanes)
    rs = [json.loads(l) for l in open(f"{OUT}/results.jsonl")]
    surv = [r for r in rs if r["verdict"] == "survived"]
    done = set()
    p2 = f"{OUT}/results_stage2.jsonl"
    if os.path.exists(p2):
        done = {json.loads(l)["id"] for l in open(p2)}
    base = f"{LANES}/lane{lane}"
    repo = f"{base}/repo"
    env = dict(os.environ, VERIF_REPO=repo, VERIF_ALT_TARGET=f"{base}/target", VERIF_ALT_OUT=f"{base}/out")
    allc = [f"C{i:02d}" for i in range(1, 21)]
    for i, m in enumerate(surv):
        if i % nlanes != lane or m["id"] in done:
            continue
        sh(f"git -C {repo} checkout -- .")
        path = f"{repo}/{m['file']}"
        lines = open(path).read().split("\n")
        if lines[m["line"] - 1] != m["old"]:
            continue
        lines[m["line"] - 1] = m["new"]
        open(path, "w").write("\n".join(lines))
        verdict, detail = "survived-all", {}
        for c in [c for c in allc if c not in m["props"]]:
            r = subprocess.run(f"cd {ROOT} && timeout 900 ./check {c} --tier quick", shell=True, capture_output=True, text=True, env=env)
            detail[c] = r.returncode
            if r.returncode == 1:
                verdict = "killed-by-other"
                detail[c + ":keys"] = [l.strip() for l in r.stdout.splitlines() if l.strip().startswith("key:")][:2]
                break
            if r.returncode not in (0, 1):
                verdict = "machinery"
                detail[c + ":stderr"] = (r.stderr or r.stdout)[-300:]
                break
        # does the repository's own suite kill it?
        crate = m["file"].split("/")[1]
        t = subprocess.run(f"cd {repo} && CARGO_TARGET_DIR={base}/target-tests cargo test --offline -p {crate} 2>&1 | grep -E '^test result|FAILED' | head -5", shell=True, capture_output=True, text=True)
        suite = "fails" if "FAILED" in t.stdout or " failed;" in t.stdout and "0 failed" not in t.stdout else "passes"
        rec = dict(m, verdict=verdict, detail=detail, suite=suite)
        with open(p2, "a") as fh:
            fh.write(json.dumps(rec) + "\n")
        print(lane, m["id"], m["file"].split("/")[-1], m["line"], verdict, "suite", suite, flush=True)
    sh(f"git -C {repo} checkout -- .")


def report():
    rs = [json.loads(l) for l in open(f"{OUT}/results.jsonl")]
    by = {}
    for r in rs:
        by.setdefault(r["verdict"], []).append(r)
    print({k: len(v) for k, v in by.items()})
    for r in by.get("survived", []) + by.get("machinery", []):
        print(f"{r['verdict']:9s} {r['id']} {r['file']}:{r['line']} props={r['props']}\n    - {r['old'].strip()}\n    + {r['new'].strip()}")


if __name__ == "__main__":
    cmd = sys.argv[1]
    if cmd == "gen":
        gen()
    elif cmd == "run":
        run(*sys.argv[2:])
    elif cmd == "stage2":
        stage2(*sys.argv[2:])
    elif cmd == "report":
        report()
