#!/bin/bash
# usage: tools/confirm_seed.sh <name> <worktree> <property> [extra checks...]
# Confirms a seeded change in its scratch worktree (suite passes with it; demo fails with / passes without),
# then applies it to /repo, runs the checks, and undoes it.  Results go to /verif/seeded/<name>/.
set -u
name=$1; wt=$2; prop=$3; shift 3
out=/verif/seeded/$name
mkdir -p $out
cd $wt || exit 2
cp seeded-out/patch.diff $out/patch.diff
cp -r seeded-out $out/agent-out 2>/dev/null
rm -rf $out/agent-out/target
export CARGO_NET_OFFLINE=true; WT_TARGET=$wt/target
echo "== worktree diff vs patch"; git diff --stat | tail -3
echo "== suite with the change"; CARGO_TARGET_DIR=$WT_TARGET cargo test --offline -p trippy-core -p trippy-packet -p trippy-tui -p trippy-dns 2>&1 | grep -E "^test result|FAILED|^error" | tee $out/suite_with_change.txt | awk '{print}' | sort | uniq -c | head
echo "== demo with the change (expect failure)"; (CARGO_TARGET_DIR=$WT_TARGET sh seeded-out/run_demo.sh > $out/demo_with_change.txt 2>&1; echo "exit $?" | tee -a $out/demo_with_change.txt)
grep -E "^test result|panicked|FAILED|assert" $out/demo_with_change.txt | head -5
# back to the unchanged tree (tracked files restored, demo leftovers removed), run the demo, restore the change
git checkout -- . ; git clean -fdq -e seeded-out -e target
echo "== demo without the change (expect pass)"; (CARGO_TARGET_DIR=$WT_TARGET sh seeded-out/run_demo.sh > $out/demo_without_change.txt 2>&1; echo "exit $?" | tee -a $out/demo_without_change.txt)
grep -E "^test result|panicked|FAILED" $out/demo_without_change.txt | head -5
git checkout -- . ; git clean -fdq -e seeded-out -e target; git apply seeded-out/patch.diff
echo "== checks against the worktree with the change applied (VERIF_REPO mode: same harness, built against the copy; /repo untouched)"
git -C $wt diff --quiet && { echo "PATCH NOT APPLIED in worktree"; exit 3; }
for c in $prop "$@"; do
  (cd /verif && VERIF_REPO=$wt VERIF_ALT_TARGET=/tmp/mut/target VERIF_ALT_OUT=/tmp/mut/out ./check $c --tier quick > $out/check_$c.txt 2>&1; echo "check $c exit $?" | tee -a $out/check_$c.txt)
  grep -E "VIOLATION|key:|MACHINERY" $out/check_$c.txt | head -6 | cut -c1-260
done
