#!/usr/bin/env python3
"""tools/seed_meta.py <name> <property> <caught_by(comma)> <missed_by(comma or ->) <needs...>  : write seeded/<name>/meta.json"""
import json,sys,os,re
name,prop,caught,missed=sys.argv[1:5]; needs=" ".join(sys.argv[5:])
d=f"/verif/seeded/{name}"
def rd(f):
    p=os.path.join(d,f); return open(p).read() if os.path.exists(p) else ""
suite=[l.strip() for l in rd("suite_with_change.txt").splitlines() if l.startswith("test result")]
meta={
 "id":name,"breaks_property":prop,"needs_to_manifest":needs,
 "source":"independent sub-agent given only the property text and a scratch worktree (no access to /verif)",
 "confirmed":{
   "suite_with_change":suite,
   "demonstration_with_change":"FAILS" if re.search(r"FAILED|panicked",rd("demo_with_change.txt")) else "did not fail",
   "demonstration_without_change":"passes" if re.search(r"test result: ok",rd("demo_without_change.txt")) and not re.search("FAILED",rd("demo_without_change.txt")) else "did not pass",
   "commands":["tools/confirm_seed.sh: suite + demo with/without the change in the scratch worktree, then the quick check(s) against the change (either git -C /repo apply; ./check <id> --tier quick; git -C /repo checkout -- .  or, while other runs were using /repo, VERIF_REPO=<worktree> ./check <id> --tier quick, which builds the same harness against the copy)"],
 },
 "caught_by":[c for c in caught.split(",") if c and c!="-"],
 "not_caught_by":[c for c in missed.split(",") if c and c!="-"],
 "check_outputs":{f[6:-4]:[l for l in rd(f).splitlines() if l.startswith(("VIOLATION","  key:"))][:6] for f in sorted(os.listdir(d)) if f.startswith("check_")},
}
json.dump(meta,open(os.path.join(d,"meta.json"),"w"),indent=1)
print("wrote",d+"/meta.json",meta["confirmed"]["demonstration_with_change"],meta["confirmed"]["demonstration_without_change"])
